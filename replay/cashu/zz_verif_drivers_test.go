package cashu

// Replay drivers for package cashu (injected with `go test -overlay`).

import (
	"encoding/base64"
	"testing"
)

func vNoPanic(t *testing.T, what string, f func()) {
	t.Helper()
	defer func() {
		if r := recover(); r != nil {
			t.Fatalf("CONFIRMED: %s panicked: %v", what, r)
		}
	}()
	f()
}

// Decoding any string returns an error or a token; it never panics.
func TestVerifReplay_DecodeShortStrings(t *testing.T) {
	for _, s := range []string{"", "c", "cashu", "cashuA", "cashuB", "abc"} {
		s := s
		vNoPanic(t, "DecodeToken("+s+")", func() { DecodeToken(s) })
		vNoPanic(t, "DecodeTokenV3("+s+")", func() { DecodeTokenV3(s) })
		vNoPanic(t, "DecodeTokenV4("+s+")", func() { DecodeTokenV4(s) })
	}
}

// Every accessor can be called on every token a decoder returns.
func TestVerifReplay_AccessorsOnDecodedTokens(t *testing.T) {
	for _, js := range []string{"{}", `{"token":[]}`, `{"token":null,"unit":"sat"}`, `{"token":[{"mint":"m","proofs":null}]}`} {
		s := "cashuA" + base64.URLEncoding.EncodeToString([]byte(js))
		tok, err := DecodeToken(s)
		if err != nil {
			continue
		}
		vNoPanic(t, "accessors on decoded "+js, func() {
			tok.Proofs()
			tok.Mint()
			tok.Amount()
			tok.Serialize()
		})
	}
	// CBOR: a0 = {}, a1 61 74 80 = {"t": []}
	for _, raw := range [][]byte{{0xa0}, {0xa1, 0x61, 0x74, 0x80}, {0xa1, 0x61, 0x74, 0xf6}} {
		s := "cashuB" + base64.RawURLEncoding.EncodeToString(raw)
		tok, err := DecodeToken(s)
		if err != nil {
			continue
		}
		vNoPanic(t, "accessors on decoded CBOR", func() {
			tok.Proofs()
			tok.Mint()
			tok.Amount()
			tok.Serialize()
		})
	}
}
