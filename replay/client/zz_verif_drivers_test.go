package client

// Replay drivers of the govc checks for package wallet/client (injected with
// `go test -overlay`, never part of the repository).

import (
	"io"
	"net/http"
	"net/http/httptest"
	"strings"
	"testing"

	"github.com/elnosh/gonuts/cashu"
	"github.com/elnosh/gonuts/cashu/nuts/nut03"
	"github.com/elnosh/gonuts/cashu/nuts/nut05"
)

func vCapture(t *testing.T) (*httptest.Server, *[]string) {
	var bodies []string
	srv := httptest.NewServer(http.HandlerFunc(func(rw http.ResponseWriter, req *http.Request) {
		b, _ := io.ReadAll(req.Body)
		bodies = append(bodies, string(b))
		rw.WriteHeader(http.StatusBadRequest)
		rw.Write([]byte(`{"detail":"verif capture","code":10000}`))
	}))
	t.Cleanup(srv.Close)
	return srv, &bodies
}

var vProofWithDLEQ = cashu.Proof{
	Amount: 2, Id: "009a1f293253e41e", Secret: "secret-1", C: "02aa",
	DLEQ: &cashu.DLEQProof{E: "e-of-the-mint", S: "s-of-the-mint", R: "blinding-factor-r"},
}

// C08: no request body may contain the blinding factor r (nor the (e, s) the
// mint issued) of an input proof.
func TestVerifReplay_SwapRequestCarriesDLEQ(t *testing.T) {
	srv, bodies := vCapture(t)
	PostSwap(srv.URL, nut03.PostSwapRequest{Inputs: cashu.Proofs{vProofWithDLEQ}})
	if len(*bodies) != 1 {
		t.Skipf("captured %d requests", len(*bodies))
	}
	if strings.Contains((*bodies)[0], "blinding-factor-r") || strings.Contains((*bodies)[0], "dleq") {
		t.Fatalf("CONFIRMED: POST /v1/swap body carries the DLEQ proof incl. r of an input: %s", (*bodies)[0])
	}
}

func TestVerifReplay_MeltRequestCarriesDLEQ(t *testing.T) {
	srv, bodies := vCapture(t)
	PostMeltBolt11(srv.URL, nut05.PostMeltBolt11Request{Quote: "q", Inputs: cashu.Proofs{vProofWithDLEQ}})
	if len(*bodies) != 1 {
		t.Skipf("captured %d requests", len(*bodies))
	}
	if strings.Contains((*bodies)[0], "blinding-factor-r") || strings.Contains((*bodies)[0], "dleq") {
		t.Fatalf("CONFIRMED: POST /v1/melt/bolt11 body carries the DLEQ proof incl. r of an input: %s", (*bodies)[0])
	}
}
