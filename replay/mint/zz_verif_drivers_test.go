package mint

// Replay drivers for package mint: each test FAILS when the real code shows
// the misbehaviour the failed obligation describes (a failing test = the
// counterexample is confirmed on the real code).

import (
	"bytes"
	"context"
	"net/http"
	"net/http/httptest"
	"strings"
	"crypto/sha256"
	"encoding/hex"
	"encoding/json"
	"fmt"
	"math"
	"testing"
	"time"

	"github.com/btcsuite/btcd/btcec/v2"
	"github.com/btcsuite/btcd/btcec/v2/schnorr"
	"github.com/btcsuite/btcd/chaincfg"
	"github.com/elnosh/gonuts/cashu/nuts/nut10"
	"github.com/elnosh/gonuts/cashu/nuts/nut11"
	"github.com/elnosh/gonuts/cashu/nuts/nut14"
	"github.com/decred/dcrd/dcrec/secp256k1/v4"
	"github.com/decred/dcrd/dcrec/secp256k1/v4/ecdsa"
	"github.com/gorilla/mux"
	"github.com/lightningnetwork/lnd/lnwire"
	"github.com/lightningnetwork/lnd/zpay32"

	"github.com/elnosh/gonuts/cashu"
	"github.com/elnosh/gonuts/cashu/nuts/nut04"
	"github.com/elnosh/gonuts/cashu/nuts/nut05"
	"github.com/elnosh/gonuts/mint/storage"
	"github.com/elnosh/gonuts/cashu/nuts/nut07"
	"github.com/elnosh/gonuts/crypto"
	"github.com/elnosh/gonuts/mint/lightning"
)

func vNoPanic(t *testing.T, what string, f func()) {
	t.Helper()
	defer func() {
		if r := recover(); r != nil {
			t.Fatalf("CONFIRMED: %s panicked: %v", what, r)
		}
	}()
	f()
}

func vYs(t *testing.T, ps cashu.Proofs) []string {
	var ys []string
	for _, p := range ps {
		Y, err := crypto.HashToCurve([]byte(p.Secret))
		if err != nil {
			t.Fatal(err)
		}
		ys = append(ys, hexOf(Y.SerializeCompressed()))
	}
	return ys
}

func hexOf(b []byte) string {
	const d = "0123456789abcdef"
	out := make([]byte, 0, 2*len(b))
	for _, c := range b {
		out = append(out, d[c>>4], d[c&15])
	}
	return string(out)
}

func vStates(t *testing.T, m *Mint, ps cashu.Proofs) []nut07.State {
	st, err := m.ProofsStateCheck(vYs(t, ps))
	if err != nil {
		t.Fatalf("ProofsStateCheck: %v", err)
	}
	var out []nut07.State
	for _, s := range st {
		out = append(out, s.State)
	}
	return out
}

// Swap with valid inputs and an empty output list must not panic.
func TestVerifReplay_EmptyOutputsSwap(t *testing.T) {
	m := vNewMint(t, 0, nil)
	ps := vMintProofs(t, m, []uint64{4, 2})
	vNoPanic(t, "Swap(valid inputs, no outputs)", func() { m.Swap(ps, cashu.BlindedMessages{}) })
}

// MintTokens on a paid quote with an empty output list must not panic and
// must not leave the quote PENDING.
func TestVerifReplay_EmptyOutputsMint(t *testing.T) {
	m := vNewMint(t, 0, nil)
	q, err := m.RequestMintQuote(nut04.PostMintQuoteBolt11Request{Amount: 8, Unit: "sat"})
	if err != nil {
		t.Fatal(err)
	}
	vNoPanic(t, "MintTokens(paid quote, no outputs)", func() {
		m.MintTokens(nut04.PostMintBolt11Request{Quote: q.Id, Outputs: cashu.BlindedMessages{}})
	})
	q2, err := m.GetMintQuoteState(q.Id)
	if err != nil {
		t.Fatal(err)
	}
	if q2.State == nut04.Pending {
		t.Fatalf("CONFIRMED: quote left PENDING")
	}
}

// ProofsStateCheck with an empty list must not panic.
func TestVerifReplay_EmptyYsStateCheck(t *testing.T) {
	m := vNewMint(t, 0, nil)
	vNoPanic(t, "ProofsStateCheck([])", func() { m.ProofsStateCheck([]string{}) })
}

// Two outputs with the same B_ and different amounts: the swap must be refused
// without consuming the inputs.
func TestVerifReplay_DupBSwap(t *testing.T) {
	m := vNewMint(t, 0, nil)
	ps := vMintProofs(t, m, []uint64{4, 2})
	o := vOutputs(t, m, []uint64{4, 2})
	o.bms[1].B_ = o.bms[0].B_
	_, err := m.Swap(ps, o.bms)
	if err == nil {
		t.Fatalf("CONFIRMED: swap with duplicate B_ accepted")
	}
	for i, s := range vStates(t, m, ps) {
		if s != nut07.Unspent {
			t.Fatalf("CONFIRMED: swap answered error %q but input %d is %v", err, i, s)
		}
	}
}

// Same for MintTokens: after the refusal the quote must still be PAID.
func TestVerifReplay_DupBMint(t *testing.T) {
	m := vNewMint(t, 0, nil)
	q, err := m.RequestMintQuote(nut04.PostMintQuoteBolt11Request{Amount: 6, Unit: "sat"})
	if err != nil {
		t.Fatal(err)
	}
	o := vOutputs(t, m, []uint64{4, 2})
	o.bms[1].B_ = o.bms[0].B_
	_, err = m.MintTokens(nut04.PostMintBolt11Request{Quote: q.Id, Outputs: o.bms})
	if err == nil {
		t.Fatalf("CONFIRMED: mint with duplicate B_ accepted")
	}
	q2, _ := m.GetMintQuoteState(q.Id)
	if q2.State != nut04.Paid {
		t.Fatalf("CONFIRMED: mint refused with %q but the quote is now %v (paid quote no longer usable)", err, q2.State)
	}
}

// A storage error at the k-th store call of MintTokens must leave the quote
// usable (PAID) - C07 fault injection / C06.
func TestVerifReplay_MintStorageFault(t *testing.T) {
	var a struct{ Call string }
	a.Call = "SaveBlindSignatures"
	vArgs(t, &a)
	m := vNewMint(t, 0, nil)
	q, err := m.RequestMintQuote(nut04.PostMintQuoteBolt11Request{Amount: 6, Unit: "sat"})
	if err != nil {
		t.Fatal(err)
	}
	if _, err := m.GetMintQuoteState(q.Id); err != nil {
		t.Fatal(err)
	}
	db := &vDB{MintDB: m.db, fail: map[int]bool{}}
	db.onCall = func(n int, name string) {
		if name == a.Call {
			db.fail[n] = true
		}
	}
	real := m.db
	m.db = db
	o := vOutputs(t, m, []uint64{4, 2})
	_, err = m.MintTokens(nut04.PostMintBolt11Request{Quote: q.Id, Outputs: o.bms})
	m.db = real
	if err == nil {
		t.Skip("no error returned")
	}
	q2, _ := m.GetMintQuoteState(q.Id)
	if q2.State != nut04.Paid {
		t.Fatalf("CONFIRMED: storage error at %s: mint answered %q and left the paid quote %v", a.Call, err, q2.State)
	}
}

// The fee limit handed to the Lightning backend must not exceed the fee
// reserve of the melt quote.
func TestVerifReplay_MeltFeeLimit(t *testing.T) {
	ln := &vLN{FakeBackend: &lightning.FakeBackend{}, feeReserve: func(a uint64) uint64 { return uint64(math.Ceil(float64(a) * 0.01)) }}
	m := vNewMint(t, 0, ln)
	ps := vMintProofs(t, m, []uint64{1024, 64})
	req, _, _, err := lightning.CreateFakeInvoice(1000, false)
	if err != nil {
		t.Fatal(err)
	}
	mq, err := m.RequestMeltQuote(nut05.PostMeltQuoteBolt11Request{Request: req, Unit: "sat"})
	if err != nil {
		t.Fatal(err)
	}
	if _, err := m.MeltTokens(context.Background(), nut05.PostMeltBolt11Request{Quote: mq.Id, Inputs: ps}); err != nil {
		t.Fatalf("melt: %v", err)
	}
	if len(ln.maxFees) == 0 {
		t.Skip("no payment attempted")
	}
	for _, f := range ln.maxFees {
		if f > mq.FeeReserve {
			t.Fatalf("CONFIRMED: fee limit handed to the backend %d > fee reserve %d", f, mq.FeeReserve)
		}
	}
}

// A mint quote whose amount wraps balance+amount around 2^64 must be refused
// when a maximum balance is configured.
func TestVerifReplay_MintQuoteBalanceWrap(t *testing.T) {
	ln := &vLN{FakeBackend: &lightning.FakeBackend{}}
	m := vNewMint(t, 0, ln)
	vMintProofs(t, m, []uint64{2}) // balance 2
	ln.anyInvoice = true
	m.limits.MaxBalance = 10
	_, err := m.RequestMintQuote(nut04.PostMintQuoteBolt11Request{Amount: math.MaxUint64 - 1, Unit: "sat"})
	if err == nil {
		t.Fatalf("CONFIRMED: quote for 2^64-2 accepted with balance 2 and max balance 10")
	}
	t.Logf("refused with: %v", err)
}

// vInvoiceWithHash builds a BOLT11 invoice for `sat` with a chosen payment hash.
func vInvoiceWithHash(t *testing.T, hashHex string, sat uint64) string {
	hb, err := hex.DecodeString(hashHex)
	if err != nil || len(hb) != 32 {
		t.Fatalf("bad hash %q", hashHex)
	}
	var h [32]byte
	copy(h[:], hb)
	inv, err := zpay32.NewInvoice(&chaincfg.SigNetParams, h, time.Now(), zpay32.Amount(lnwire.MilliSatoshi(sat*1000)), zpay32.Description("test"))
	if err != nil {
		t.Fatal(err)
	}
	s, err := inv.Encode(zpay32.MessageSigner{SignCompact: func(msg []byte) ([]byte, error) {
		key, err := secp256k1.GeneratePrivateKey()
		if err != nil {
			return nil, err
		}
		return ecdsa.SignCompact(key, msg, true), nil
	}})
	if err != nil {
		t.Fatal(err)
	}
	return s
}

// A melt of a *different* invoice that merely shares the payment hash of an
// unpaid mint quote must not mark that mint quote as paid (internal settlement
// for less than the quoted amount inflates the supply).
func TestVerifReplay_InternalSettleOtherInvoice(t *testing.T) {
	ln := &vLN{FakeBackend: &lightning.FakeBackend{}}
	m := vNewMint(t, 0, ln)
	ps := vMintProofs(t, m, []uint64{2}) // 2 sat of honest ecash
	ln.unsettled = true                   // from now on incoming invoices stay unpaid
	big, err := m.RequestMintQuote(nut04.PostMintQuoteBolt11Request{Amount: 10000, Unit: "sat"})
	if err != nil {
		t.Fatal(err)
	}
	time.Sleep(100 * time.Millisecond)
	small := vInvoiceWithHash(t, big.PaymentHash, 1)
	mq, err := m.RequestMeltQuote(nut05.PostMeltQuoteBolt11Request{Request: small, Unit: "sat"})
	if err != nil {
		t.Skipf("melt quote refused: %v", err)
	}
	if _, err := m.MeltTokens(context.Background(), nut05.PostMeltBolt11Request{Quote: mq.Id, Inputs: ps}); err != nil {
		t.Skipf("melt refused: %v", err)
	}
	q2, err := m.GetMintQuoteState(big.Id)
	if err != nil {
		t.Fatal(err)
	}
	if q2.State == nut04.Paid {
		t.Fatalf("CONFIRMED: melting %d sat of a foreign invoice with the same payment hash marked the unpaid %d sat mint quote PAID", mq.Amount, big.Amount)
	}
}

// The background "invoice settled" notification arriving after the quote was
// issued must not make the quote mintable again.
func TestVerifReplay_LateSettledNotification(t *testing.T) {
	ln := &vLN{FakeBackend: &lightning.FakeBackend{}, subGate: make(chan struct{})}
	m := vNewMint(t, 0, ln)
	q, err := m.RequestMintQuote(nut04.PostMintQuoteBolt11Request{Amount: 8, Unit: "sat"})
	if err != nil {
		t.Fatal(err)
	}
	o1 := vOutputs(t, m, []uint64{8})
	if _, err := m.MintTokens(nut04.PostMintBolt11Request{Quote: q.Id, Outputs: o1.bms}); err != nil {
		t.Fatalf("first issuance: %v", err)
	}
	close(ln.subGate) // the notification fires late
	time.Sleep(300 * time.Millisecond)
	o2 := vOutputs(t, m, []uint64{8})
	if _, err := m.MintTokens(nut04.PostMintBolt11Request{Quote: q.Id, Outputs: o2.bms}); err == nil {
		t.Fatalf("CONFIRMED: quote issued twice for one payment (late settled notification reopened an ISSUED quote)")
	}
}

// vLockedProofs mints proofs whose secrets are the given NUT-10 secrets.
func vLockedProofs(t *testing.T, m *Mint, amounts []uint64, secrets []string) cashu.Proofs {
	t.Helper()
	var total uint64
	for _, a := range amounts {
		total += a
	}
	q, err := m.RequestMintQuote(nut04.PostMintQuoteBolt11Request{Amount: total, Unit: "sat"})
	if err != nil {
		t.Fatal(err)
	}
	var o vOut
	for i, a := range amounts {
		r, _ := secp256k1.GeneratePrivateKey()
		B_, r, err := crypto.BlindMessage(secrets[i], r)
		if err != nil {
			t.Fatal(err)
		}
		o.bms = append(o.bms, cashu.NewBlindedMessage(m.activeKeyset.Id, a, B_))
		o.secrets = append(o.secrets, secrets[i])
		o.rs = append(o.rs, r)
	}
	sigs, err := m.MintTokens(nut04.PostMintBolt11Request{Quote: q.Id, Outputs: o.bms})
	if err != nil {
		t.Fatal(err)
	}
	return vUnblind(t, m, o, sigs)
}

func vP2PKSecret(t *testing.T, data string, tags [][]string) string {
	s, err := nut10.NewSecretFromSpendingCondition(nut10.SpendingCondition{Kind: nut10.P2PK, Data: data, Tags: tags})
	if err != nil {
		t.Fatal(err)
	}
	return s
}

func vSignSecret(t *testing.T, key *btcec.PrivateKey, secret string, aux byte) string {
	h := sha256.Sum256([]byte(secret))
	var auxData [32]byte
	auxData[0] = aux
	sig, err := schnorr.Sign(key, h[:], schnorr.CustomNonce(auxData))
	if err != nil {
		t.Fatal(err)
	}
	return hex.EncodeToString(sig.Serialize())
}

// A SIG_ALL input placed after a plain input: the swap must still require
// signed outputs.
func TestVerifReplay_SigAllAfterPlainInput(t *testing.T) {
	m := vNewMint(t, 0, nil)
	key, _ := btcec.NewPrivateKey()
	pub := hex.EncodeToString(key.PubKey().SerializeCompressed())
	locked := vP2PKSecret(t, pub, [][]string{{"sigflag", "SIG_ALL"}})
	plain := vMintProofs(t, m, []uint64{2})
	lp := vLockedProofs(t, m, []uint64{4}, []string{locked})
	w, _ := json.Marshal(nut11.P2PKWitness{Signatures: []string{vSignSecret(t, key, locked, 1)}})
	lp[0].Witness = string(w)
	inputs := append(cashu.Proofs{}, plain[0], lp[0])
	o := vOutputs(t, m, []uint64{4, 2}) // outputs NOT signed
	if _, err := m.Swap(inputs, o.bms); err == nil {
		t.Fatalf("CONFIRMED: swap with a SIG_ALL input in second position accepted unsigned outputs")
	}
	// sanity: the same inputs with the locked proof first are refused
	o2 := vOutputs(t, m, []uint64{4, 2})
	if _, err := m.Swap(cashu.Proofs{lp[0], plain[0]}, o2.bms); err == nil {
		t.Fatalf("CONFIRMED: swap with a SIG_ALL input accepted unsigned outputs")
	}
}

// n_sigs larger than the number of authorised keys can never be met: two
// signatures by the same key must not count twice.
func TestVerifReplay_SameKeyCountedTwice(t *testing.T) {
	m := vNewMint(t, 0, nil)
	k1, _ := btcec.NewPrivateKey()
	k2, _ := btcec.NewPrivateKey()
	pub1 := hex.EncodeToString(k1.PubKey().SerializeCompressed())
	pub2 := hex.EncodeToString(k2.PubKey().SerializeCompressed())
	locked := vP2PKSecret(t, pub1, [][]string{{"n_sigs", "3"}, {"pubkeys", pub2}})
	lp := vLockedProofs(t, m, []uint64{4}, []string{locked})
	sigs := []string{vSignSecret(t, k1, locked, 1), vSignSecret(t, k2, locked, 2), vSignSecret(t, k2, locked, 3)}
	w, _ := json.Marshal(nut11.P2PKWitness{Signatures: sigs})
	lp[0].Witness = string(w)
	o := vOutputs(t, m, []uint64{4})
	if _, err := m.Swap(lp, o.bms); err == nil {
		t.Fatalf("CONFIRMED: 3-of-{k1,k2} lock spent with signatures of only two distinct keys (%s)", fmt.Sprint(len(sigs)))
	}
}

// The witnesses produced by the library's own HTLC helpers for inputs and
// outputs of a SIG_ALL swap must be accepted by the mint.
func TestVerifReplay_HTLCHelperOutputWitness(t *testing.T) {
	m := vNewMint(t, 0, nil)
	key, _ := btcec.NewPrivateKey()
	pub := hex.EncodeToString(key.PubKey().SerializeCompressed())
	preimage := "0000000000000000000000000000000000000000000000000000000000000001"
	pb, _ := hex.DecodeString(preimage)
	h := sha256.Sum256(pb)
	sec, err := nut10.NewSecretFromSpendingCondition(nut10.SpendingCondition{Kind: nut10.HTLC, Data: hex.EncodeToString(h[:]),
		Tags: [][]string{{"sigflag", "SIG_ALL"}, {"n_sigs", "1"}, {"pubkeys", pub}}})
	if err != nil {
		t.Fatal(err)
	}
	lp := vLockedProofs(t, m, []uint64{4}, []string{sec})
	ws, err := nut10.DeserializeSecret(sec)
	if err != nil {
		t.Fatal(err)
	}
	inputs, err := nut14.AddWitnessHTLC(lp, ws, preimage, key)
	if err != nil {
		t.Fatal(err)
	}
	o := vOutputs(t, m, []uint64{4})
	outs, err := nut14.AddWitnessHTLCToOutputs(o.bms, preimage, key)
	if err != nil {
		t.Fatal(err)
	}
	if _, err := m.Swap(inputs, outs); err != nil {
		t.Fatalf("CONFIRMED: the mint refuses the output witness made by nut14.AddWitnessHTLCToOutputs: %v", err)
	}
}

// ---- crash / storage-fault points (C07) ---------------------------------

// vAt arms the wrapper: the nth call (1-based) of method `call` crashes or fails.
func vAt(db *vDB, call string, nth int, crash bool) {
	seen := 0
	db.fail, db.crash = map[int]bool{}, map[int]bool{}
	db.onCall = func(n int, name string) {
		if name == call {
			seen++
			if seen == nth {
				if crash {
					db.crash[n] = true
				} else {
					db.fail[n] = true
				}
			}
		}
	}
}

// vRun runs f, swallowing the simulated crash.
func vRun(f func()) (crashed bool) {
	defer func() {
		if r := recover(); r != nil {
			if _, ok := r.(vCrash); ok {
				crashed = true
				return
			}
			panic(r)
		}
	}()
	f()
	return false
}

type vCrashArgs struct {
	Call  string
	Nth   int
	Crash bool
}

func vRestart(t *testing.T, m *Mint, path string, ln lightning.Client) *Mint {
	m.Shutdown()
	m2, err := LoadMint(Config{MintPath: path, LightningClient: ln, LogLevel: Disable})
	if err != nil {
		t.Fatalf("CONFIRMED: the mint does not start again on the same data directory: %v", err)
	}
	t.Cleanup(func() { m2.Shutdown() })
	return m2
}

func vMintAt(t *testing.T, path string, ln lightning.Client) *Mint {
	m, err := LoadMint(Config{MintPath: path, LightningClient: ln, LogLevel: Disable})
	if err != nil {
		t.Fatal(err)
	}
	return m
}

// Swap dies (or gets a storage error) at a store call: afterwards inputs that
// are SPENT must have restorable outputs.
func TestVerifReplay_SwapCrashPoint(t *testing.T) {
	a := vCrashArgs{Call: "SaveBlindSignatures", Nth: 1, Crash: true}
	vArgs(t, &a)
	path := t.TempDir()
	ln := &lightning.FakeBackend{}
	m := vMintAt(t, path, ln)
	ps := vMintProofs(t, m, []uint64{4, 2})
	o := vOutputs(t, m, []uint64{4, 2})
	db := &vDB{MintDB: m.db}
	real := m.db
	m.db = db
	vAt(db, a.Call, a.Nth, a.Crash)
	var err error
	vRun(func() { _, err = m.Swap(ps, o.bms) })
	m.db = real
	if !a.Crash && err == nil {
		t.Skip("no error")
	}
	m2 := vRestart(t, m, path, ln)
	spent := 0
	for _, s := range vStates(t, m2, ps) {
		if s == nut07.Spent {
			spent++
		}
	}
	outs, _, err := m2.RestoreSignatures(o.bms)
	if err != nil {
		t.Fatal(err)
	}
	if spent > 0 && len(outs) < len(o.bms) {
		t.Fatalf("CONFIRMED: swap interrupted at %s (crash=%v): %d inputs are SPENT but only %d of %d outputs can be restored", a.Call, a.Crash, spent, len(outs), len(o.bms))
	}
}

// MintTokens dies / fails at a store call: the paid quote must stay usable or
// its outputs restorable.
func TestVerifReplay_MintCrashPoint(t *testing.T) {
	a := vCrashArgs{Call: "SaveBlindSignatures", Nth: 1, Crash: true}
	vArgs(t, &a)
	path := t.TempDir()
	ln := &vLN{FakeBackend: &lightning.FakeBackend{}, unsettled: false}
	m := vMintAt(t, path, ln)
	q, err := m.RequestMintQuote(nut04.PostMintQuoteBolt11Request{Amount: 6, Unit: "sat"})
	if err != nil {
		t.Fatal(err)
	}
	time.Sleep(150 * time.Millisecond)
	if _, err := m.GetMintQuoteState(q.Id); err != nil {
		t.Fatal(err)
	}
	o := vOutputs(t, m, []uint64{4, 2})
	db := &vDB{MintDB: m.db}
	real := m.db
	m.db = db
	vAt(db, a.Call, a.Nth, a.Crash)
	vRun(func() { _, err = m.MintTokens(nut04.PostMintBolt11Request{Quote: q.Id, Outputs: o.bms}) })
	m.db = real
	if !a.Crash && err == nil {
		t.Skip("no error")
	}
	m2 := vRestart(t, m, path, ln)
	outs, _, err := m2.RestoreSignatures(o.bms)
	if err != nil {
		t.Fatal(err)
	}
	if len(outs) == len(o.bms) {
		return // outputs recoverable
	}
	o2 := vOutputs(t, m2, []uint64{4, 2})
	if _, err := m2.MintTokens(nut04.PostMintBolt11Request{Quote: q.Id, Outputs: o2.bms}); err != nil {
		q2, _ := m2.GetMintQuoteState(q.Id)
		t.Fatalf("CONFIRMED: mint interrupted at %s (crash=%v): invoice paid, no outputs restorable, and the quote (state %v) cannot be minted: %v", a.Call, a.Crash, q2.State, err)
	}
}

// MeltTokens dies / fails at a store call: inputs that stay PENDING must
// belong to a quote that is PENDING (so that polling can resolve them).
func TestVerifReplay_MeltCrashPoint(t *testing.T) {
	a := vCrashArgs{Call: "UpdateMeltQuote", Nth: 1, Crash: true}
	vArgs(t, &a)
	path := t.TempDir()
	fail := a.Call == "RemovePendingProofs"
	ln := &lightning.FakeBackend{}
	m := vMintAt(t, path, ln)
	ps := vMintProofs(t, m, []uint64{64, 8})
	req, _, _, err := lightning.CreateFakeInvoice(50, fail)
	if err != nil {
		t.Fatal(err)
	}
	mq, err := m.RequestMeltQuote(nut05.PostMeltQuoteBolt11Request{Request: req, Unit: "sat"})
	if err != nil {
		t.Fatal(err)
	}
	db := &vDB{MintDB: m.db}
	real := m.db
	m.db = db
	vAt(db, a.Call, a.Nth, a.Crash)
	vRun(func() { _, err = m.MeltTokens(context.Background(), nut05.PostMeltBolt11Request{Quote: mq.Id, Inputs: ps}) })
	m.db = real
	if !a.Crash && err == nil {
		t.Skip("no error")
	}
	m2 := vRestart(t, m, path, ln)
	q2, err := m2.GetMeltQuoteState(context.Background(), mq.Id)
	if err != nil {
		t.Fatal(err)
	}
	pending := 0
	for _, s := range vStates(t, m2, ps) {
		if s == nut07.Pending {
			pending++
		}
	}
	if pending > 0 && q2.State != nut05.Pending {
		t.Fatalf("CONFIRMED: melt interrupted at %s (crash=%v): %d inputs stay PENDING while the quote is %v: nothing will ever release or settle them", a.Call, a.Crash, pending, q2.State)
	}
}

// RotateKeyset dies / fails between its two writes: the mint must start again.
func TestVerifReplay_RotateCrashPoint(t *testing.T) {
	a := vCrashArgs{Call: "SaveKeyset", Nth: 1, Crash: true}
	vArgs(t, &a)
	path := t.TempDir()
	ln := &lightning.FakeBackend{}
	m := vMintAt(t, path, ln)
	db := &vDB{MintDB: m.db}
	real := m.db
	m.db = db
	vAt(db, a.Call, a.Nth, a.Crash)
	var err error
	vRun(func() { _, err = m.RotateKeyset(100) })
	m.db = real
	if !a.Crash && err == nil {
		t.Skip("no error")
	}
	m.Shutdown()
	vNoPanic(t, "LoadMint after an interrupted rotation", func() {
		m2, err := LoadMint(Config{MintPath: path, LightningClient: ln, LogLevel: Disable})
		if err != nil {
			t.Fatalf("CONFIRMED: the mint does not start after an interrupted rotation: %v", err)
		}
		m2.Shutdown()
	})
}

// C20: a storage failure must reach the client as the generic cashu error
// ({detail, code}), never as the storage layer's own error value. Drives the
// real POST /v1/mint/bolt11 handler with a store whose SaveBlindSignatures AND
// the following state revert fail.
func TestVerifReplay_HTTPMintRawStorageError(t *testing.T) {
	m := vNewMint(t, 0, nil)
	q, err := m.RequestMintQuote(nut04.PostMintQuoteBolt11Request{Amount: 6, Unit: "sat"})
	if err != nil {
		t.Fatal(err)
	}
	if _, err := m.GetMintQuoteState(q.Id); err != nil {
		t.Fatal(err)
	}
	db := &vDB{MintDB: m.db, fail: map[int]bool{}}
	failing := false
	db.onCall = func(n int, name string) {
		if name == "SaveBlindSignatures" {
			failing = true
		}
		if failing && (name == "SaveBlindSignatures" || name == "UpdateMintQuoteState") {
			db.fail[n] = true
		}
	}
	real := m.db
	m.db = db
	defer func() { m.db = real }()
	ms := &MintServer{mint: m, cache: NewCache()}
	o := vOutputs(t, m, []uint64{4, 2})
	body, _ := json.Marshal(nut04.PostMintBolt11Request{Quote: q.Id, Outputs: o.bms})
	req := httptest.NewRequest(http.MethodPost, "/v1/mint/bolt11", bytes.NewReader(body))
	req = mux.SetURLVars(req, map[string]string{"method": "bolt11"})
	rw := httptest.NewRecorder()
	ms.mintTokensRequest(rw, req)
	if rw.Code != http.StatusBadRequest {
		t.Skipf("status %d: %s", rw.Code, rw.Body.String())
	}
	var e struct {
		Detail *string `json:"detail"`
		Code   *int    `json:"code"`
	}
	if err := json.Unmarshal(rw.Body.Bytes(), &e); err != nil || e.Detail == nil || e.Code == nil {
		t.Fatalf("CONFIRMED: storage failure answered with a body that is not a cashu error {detail, code}: %q", rw.Body.String())
	}
	if *e.Code != int(cashu.StandardErrCode) || strings.Contains(*e.Detail, "injected storage error") {
		t.Fatalf("CONFIRMED: storage failure leaked to the client: %q", rw.Body.String())
	}
}

// C01 under interleaving (rely/guarantee tier): another request acts between two
// store calls of a melt. Here: a complete swap of the same proofs runs after
// the melt has verified its inputs and before it locks them.
func TestVerifReplay_SwapDuringMelt(t *testing.T) {
	ln := &vLN{FakeBackend: &lightning.FakeBackend{}, feeReserve: func(a uint64) uint64 { return uint64(math.Ceil(float64(a) * 0.01)) }}
	m := vNewMint(t, 0, ln)
	ps := vMintProofs(t, m, []uint64{1024, 64})
	req, _, _, err := lightning.CreateFakeInvoice(1000, false)
	if err != nil {
		t.Fatal(err)
	}
	mq, err := m.RequestMeltQuote(nut05.PostMeltQuoteBolt11Request{Request: req, Unit: "sat"})
	if err != nil {
		t.Fatal(err)
	}
	real := m.db
	db := &vDB{MintDB: real, fail: map[int]bool{}}
	var swapErr error
	swapped := false
	db.onCall = func(n int, name string) {
		if name == "AddPendingProofs" && !swapped {
			swapped = true
			// the other request: swap the very same proofs (runs to completion on the real store)
			m.db = real
			o := vOutputs(t, m, []uint64{1024, 64})
			_, swapErr = m.Swap(ps, o.bms)
			m.db = db
		}
	}
	m.db = db
	_, meltErr := m.MeltTokens(context.Background(), nut05.PostMeltBolt11Request{Quote: mq.Id, Inputs: ps})
	m.db = real
	if !swapped {
		t.Skip("melt did not reach AddPendingProofs")
	}
	paid := len(ln.maxFees) > 0
	if swapErr == nil && paid {
		t.Fatalf("CONFIRMED: the swap of proofs %v succeeded (new signatures issued) while a melt of the same proofs was in progress, and the melt still sent the Lightning payment (melt answer: %v): the proofs were spent twice", []uint64{1024, 64}, meltErr)
	}
}

// C03 under interleaving: a second mint request for the same paid quote (with
// other outputs) runs to completion after request A has read the quote state
// and before A writes PENDING.
func TestVerifReplay_ConcurrentMint(t *testing.T) {
	m := vNewMint(t, 0, nil)
	q, err := m.RequestMintQuote(nut04.PostMintQuoteBolt11Request{Amount: 6, Unit: "sat"})
	if err != nil {
		t.Fatal(err)
	}
	real := m.db
	db := &vDB{MintDB: real, fail: map[int]bool{}}
	var errB error
	ranB := false
	db.onCall = func(n int, name string) {
		if name == "UpdateMintQuoteState" && !ranB {
			ranB = true
			m.db = real
			oB := vOutputs(t, m, []uint64{2, 4})
			_, errB = m.MintTokens(nut04.PostMintBolt11Request{Quote: q.Id, Outputs: oB.bms})
			m.db = db
		}
	}
	m.db = db
	oA := vOutputs(t, m, []uint64{4, 2})
	_, errA := m.MintTokens(nut04.PostMintBolt11Request{Quote: q.Id, Outputs: oA.bms})
	m.db = real
	if !ranB {
		t.Skip("request A did not reach a state write")
	}
	if errA == nil && errB == nil {
		t.Fatalf("CONFIRMED: two mint requests for the same quote of 6 sat both succeeded: 12 sat issued for one payment")
	}
}

// C03 under interleaving: a state poll that has read UNPAID and learned from the
// backend that the invoice is settled writes PAID after a mint request has
// issued the quote in between; the quote can then be minted again.
func TestVerifReplay_PollOverwritesIssued(t *testing.T) {
	m := vNewMint(t, 0, nil)
	q, err := m.RequestMintQuote(nut04.PostMintQuoteBolt11Request{Amount: 6, Unit: "sat"})
	if err != nil {
		t.Fatal(err)
	}
	real := m.db
	db := &vDB{MintDB: real, fail: map[int]bool{}}
	var err1 error
	ran := false
	db.onCall = func(n int, name string) {
		if name == "UpdateMintQuoteState" && !ran {
			ran = true
			m.db = real
			o := vOutputs(t, m, []uint64{2, 4})
			_, err1 = m.MintTokens(nut04.PostMintBolt11Request{Quote: q.Id, Outputs: o.bms})
			m.db = db
		}
	}
	m.db = db
	_, pollErr := m.GetMintQuoteState(q.Id) // the poll
	m.db = real
	if !ran || err1 != nil || pollErr != nil {
		t.Skipf("interleaving not reached: ran=%v mint=%v poll=%v", ran, err1, pollErr)
	}
	o2 := vOutputs(t, m, []uint64{4, 2})
	if _, err2 := m.MintTokens(nut04.PostMintBolt11Request{Quote: q.Id, Outputs: o2.bms}); err2 == nil {
		t.Fatalf("CONFIRMED: the poll wrote PAID over ISSUED; the quote of 6 sat was minted a second time")
	}
}

// C03 under interleaving, invoice watcher: the watcher re-reads the quote
// (UNPAID) and then writes PAID; a mint request that runs in between issues the
// quote, the watcher's write reopens it.
func TestVerifReplay_WatcherWritesAfterIssue(t *testing.T) {
	ln := &vLN{FakeBackend: &lightning.FakeBackend{}, subGate: make(chan struct{}), unsettled: true}
	m := vNewMint(t, 0, ln)
	real := m.db
	db := &vDB{MintDB: real, fail: map[int]bool{}}
	var q storage.MintQuote
	var err1 error
	ran := false
	done := make(chan struct{})
	db.onCall = func(n int, name string) {
		if name == "UpdateMintQuoteState" && !ran {
			ran = true
			// the other request, between the watcher's re-read and its write
			ln.unsettled = false
			m.db = real
			o := vOutputs(t, m, []uint64{8})
			_, err1 = m.MintTokens(nut04.PostMintBolt11Request{Quote: q.Id, Outputs: o.bms})
			m.db = db
			close(done)
		}
	}
	m.db = db
	var err error
	q, err = m.RequestMintQuote(nut04.PostMintQuoteBolt11Request{Amount: 8, Unit: "sat"})
	if err != nil {
		t.Fatal(err)
	}
	close(ln.subGate) // the watcher is told that the invoice is settled
	select {
	case <-done:
	case <-time.After(3 * time.Second):
		m.db = real
		t.Skip("the watcher did not reach its state write")
	}
	time.Sleep(300 * time.Millisecond)
	m.db = real
	if err1 != nil {
		t.Skipf("interleaved mint request failed: %v", err1)
	}
	o2 := vOutputs(t, m, []uint64{8})
	if _, err := m.MintTokens(nut04.PostMintBolt11Request{Quote: q.Id, Outputs: o2.bms}); err == nil {
		t.Fatalf("CONFIRMED: a mint request ran between the watcher's re-read and its write; the watcher wrote PAID over ISSUED and the quote of 8 sat was minted a second time")
	}
}

// C03 / NUT-20: a quote locked to a public key is issued only with a signature
// of that key over the quote id followed by the B_ of EVERY submitted output,
// in order. Independent reading of NUT-20 (no call into package nut20).
func TestVerifReplay_Nut20LockedQuote(t *testing.T) {
	m := vNewMint(t, 0, nil)
	priv, _ := secp256k1.GeneratePrivateKey()
	other, _ := secp256k1.GeneratePrivateKey()
	sign := func(k *secp256k1.PrivateKey, quote string, bms cashu.BlindedMessages) string {
		msg := quote
		for _, bm := range bms {
			msg += bm.B_
		}
		h := sha256.Sum256([]byte(msg))
		s, err := schnorr.Sign(k, h[:])
		if err != nil {
			t.Fatal(err)
		}
		return hex.EncodeToString(s.Serialize())
	}
	newQuote := func() string {
		q, err := m.RequestMintQuote(nut04.PostMintQuoteBolt11Request{Amount: 7, Unit: "sat", Pubkey: hex.EncodeToString(priv.PubKey().SerializeCompressed())})
		if err != nil {
			t.Fatalf("RequestMintQuote: %v", err)
		}
		return q.Id
	}
	type attempt struct {
		name string
		sig  func(q string, o vOut) string
	}
	bad := []attempt{
		{"no signature", func(q string, o vOut) string { return "" }},
		{"signature of another key", func(q string, o vOut) string { return sign(other, q, o.bms) }},
		{"signature over the first output only", func(q string, o vOut) string { return sign(priv, q, o.bms[:1]) }},
		{"signature over the outputs in another order", func(q string, o vOut) string {
			return sign(priv, q, cashu.BlindedMessages{o.bms[2], o.bms[1], o.bms[0]})
		}},
		{"signature over another quote id", func(q string, o vOut) string { return sign(priv, q+"x", o.bms) }},
		{"signature over other outputs", func(q string, o vOut) string { return sign(priv, q, vOutputs(t, m, []uint64{4, 2, 1}).bms) }},
	}
	for _, a := range bad {
		q := newQuote()
		o := vOutputs(t, m, []uint64{4, 2, 1})
		sigs, err := m.MintTokens(nut04.PostMintBolt11Request{Quote: q, Outputs: o.bms, Signature: a.sig(q, o)})
		if err == nil {
			t.Fatalf("CONFIRMED: locked quote issued %d signatures with %s", len(sigs), a.name)
		}
	}
	// the honest request is accepted
	q := newQuote()
	o := vOutputs(t, m, []uint64{4, 2, 1})
	if _, err := m.MintTokens(nut04.PostMintBolt11Request{Quote: q, Outputs: o.bms, Signature: sign(priv, q, o.bms)}); err != nil {
		t.Fatalf("CONFIRMED: locked quote refused with the owner's signature over exactly the submitted outputs: %v", err)
	}
}

// C09 / C07: after a restart every stored keyset comes back with the same id,
// public keys, fee and active flag - also when the configured fee has changed.
func TestVerifReplay_RestartKeysets(t *testing.T) {
	dir := t.TempDir()
	load := func(fee uint) *Mint {
		m, err := LoadMint(Config{MintPath: dir, LightningClient: &lightning.FakeBackend{}, LogLevel: Disable, InputFeePpk: fee})
		if err != nil {
			t.Fatalf("LoadMint: %v", err)
		}
		return m
	}
	type snap struct {
		fee    uint
		active bool
		idx    uint32
		keys   string
	}
	take := func(m *Mint) map[string]snap {
		out := map[string]snap{}
		for id, ks := range m.keysets {
			b, _ := json.Marshal(ks.PublicKeys())
			out[id] = snap{ks.InputFeePpk, ks.Active, ks.DerivationPathIdx, string(b)}
		}
		return out
	}
	m := load(100)
	if _, err := m.RotateKeyset(200); err != nil {
		t.Fatal(err)
	}
	if _, err := m.RotateKeyset(300); err != nil {
		t.Fatal(err)
	}
	before := take(m)
	activeBefore := m.activeKeyset.Id
	m.Shutdown()
	m2 := load(999) // the configured fee only matters for keysets created from now on
	defer m2.Shutdown()
	after := take(m2)
	if len(after) != len(before) {
		t.Fatalf("CONFIRMED: %d keysets before the restart, %d after", len(before), len(after))
	}
	for id, b := range before {
		a, ok := after[id]
		if !ok {
			t.Fatalf("CONFIRMED: keyset %s (index %d) is gone after the restart", id, b.idx)
		}
		if a != b {
			t.Fatalf("CONFIRMED: keyset %s changed across the restart: before {fee %d active %v index %d}, after {fee %d active %v index %d}, same keys: %v", id, b.fee, b.active, b.idx, a.fee, a.active, a.idx, a.keys == b.keys)
		}
	}
	if m2.activeKeyset == nil || m2.activeKeyset.Id != activeBefore {
		t.Fatalf("CONFIRMED: active keyset before the restart %s, after %v", activeBefore, m2.activeKeyset)
	}
	n := 0
	for _, ks := range m2.keysets {
		if ks.Active {
			n++
		}
	}
	if n != 1 {
		t.Fatalf("CONFIRMED: %d active keysets after the restart", n)
	}
}

// C16: the reported totals follow every issuance and redemption exactly.
func TestVerifReplay_TotalsFollowOperations(t *testing.T) {
	m := vNewMint(t, 0, nil)
	sum := func(mp map[string]uint64) (s uint64) {
		for _, v := range mp {
			s += v
		}
		return
	}
	totals := func() (uint64, uint64) {
		i, err := m.IssuedEcash()
		if err != nil {
			t.Fatal(err)
		}
		r, err := m.RedeemedEcash()
		if err != nil {
			t.Fatal(err)
		}
		return sum(i), sum(r)
	}
	ps := vMintProofs(t, m, []uint64{8, 4, 2, 1})
	if i, r := totals(); i != 15 || r != 0 {
		t.Fatalf("CONFIRMED: after minting 15: issued %d redeemed %d", i, r)
	}
	o := vOutputs(t, m, []uint64{4, 4, 4, 2, 1})
	sigs, err := m.Swap(ps, o.bms)
	if err != nil {
		t.Fatalf("Swap: %v", err)
	}
	var out uint64
	for _, s := range sigs {
		out += s.Amount
	}
	if i, r := totals(); i != 15+out || r != 15 {
		t.Fatalf("CONFIRMED: after swapping 15 for %d: issued %d (want %d) redeemed %d (want 15)", out, i, 15+out, r)
	}
	// a refused swap (inputs already spent) changes nothing
	o2 := vOutputs(t, m, []uint64{8, 4, 2, 1})
	if _, err := m.Swap(ps, o2.bms); err == nil {
		t.Fatalf("CONFIRMED: spent inputs swapped again")
	}
	if i, r := totals(); i != 15+out || r != 15 {
		t.Fatalf("CONFIRMED: a refused swap moved the totals: issued %d redeemed %d", i, r)
	}
	b, err := m.TotalBalance()
	if err != nil || b != out {
		t.Fatalf("CONFIRMED: balance %d (err %v), want %d", b, err, out)
	}
}
