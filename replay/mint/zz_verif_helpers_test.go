package mint

// Replay helpers injected into package mint with `go test -overlay` by
// /verif/check (never written into /repo).

import (
	"context"
	"encoding/hex"
	"encoding/json"
	"errors"
	"fmt"
	"os"
	"testing"

	"github.com/decred/dcrd/dcrec/secp256k1/v4"
	"github.com/elnosh/gonuts/cashu"
	"github.com/elnosh/gonuts/cashu/nuts/nut04"
	"github.com/elnosh/gonuts/cashu/nuts/nut05"
	"github.com/elnosh/gonuts/crypto"
	"github.com/elnosh/gonuts/mint/lightning"
	"github.com/elnosh/gonuts/mint/storage"
)

var _ = errors.New
var _ = nut05.Unpaid

// vArgs reads the JSON arguments of the replay (env VERIF_REPLAY_ARGS).
func vArgs(t *testing.T, into any) {
	s := os.Getenv("VERIF_REPLAY_ARGS")
	if s == "" {
		return
	}
	if err := json.Unmarshal([]byte(s), into); err != nil {
		t.Fatalf("bad VERIF_REPLAY_ARGS: %v", err)
	}
}

func vNewMint(t *testing.T, fee uint, ln lightning.Client) *Mint {
	t.Helper()
	if ln == nil {
		ln = &lightning.FakeBackend{}
	}
	m, err := LoadMint(Config{MintPath: t.TempDir(), LightningClient: ln, LogLevel: Disable, InputFeePpk: fee})
	if err != nil {
		t.Fatalf("LoadMint: %v", err)
	}
	t.Cleanup(func() { m.Shutdown() })
	return m
}

type vOut struct {
	bms     cashu.BlindedMessages
	secrets []string
	rs      []*secp256k1.PrivateKey
}

var vCounter int

func vOutputs(t *testing.T, m *Mint, amounts []uint64) vOut {
	t.Helper()
	var o vOut
	for _, a := range amounts {
		vCounter++
		secret := fmt.Sprintf("verif-secret-%d-%d", vCounter, a)
		r, err := secp256k1.GeneratePrivateKey()
		if err != nil {
			t.Fatal(err)
		}
		B_, r, err := crypto.BlindMessage(secret, r)
		if err != nil {
			t.Fatal(err)
		}
		o.bms = append(o.bms, cashu.NewBlindedMessage(m.activeKeyset.Id, a, B_))
		o.secrets = append(o.secrets, secret)
		o.rs = append(o.rs, r)
	}
	return o
}

func vUnblind(t *testing.T, m *Mint, o vOut, sigs cashu.BlindedSignatures) cashu.Proofs {
	t.Helper()
	if len(sigs) != len(o.bms) {
		t.Fatalf("got %d signatures for %d outputs", len(sigs), len(o.bms))
	}
	var ps cashu.Proofs
	for i, sig := range sigs {
		cb, err := hex.DecodeString(sig.C_)
		if err != nil {
			t.Fatal(err)
		}
		C_, err := secp256k1.ParsePubKey(cb)
		if err != nil {
			t.Fatal(err)
		}
		ks := m.keysets[sig.Id]
		K := ks.Keys[sig.Amount].PublicKey
		C := crypto.UnblindSignature(C_, o.rs[i], K)
		ps = append(ps, cashu.Proof{Amount: sig.Amount, Id: sig.Id, Secret: o.secrets[i], C: hex.EncodeToString(C.SerializeCompressed())})
	}
	return ps
}

// vMintProofs obtains valid proofs of the given amounts from the real mint
// (mint quote -> paid by the fake backend -> MintTokens -> unblind).
func vMintProofs(t *testing.T, m *Mint, amounts []uint64) cashu.Proofs {
	t.Helper()
	var total uint64
	for _, a := range amounts {
		total += a
	}
	q, err := m.RequestMintQuote(nut04.PostMintQuoteBolt11Request{Amount: total, Unit: "sat"})
	if err != nil {
		t.Fatalf("RequestMintQuote: %v", err)
	}
	o := vOutputs(t, m, amounts)
	sigs, err := m.MintTokens(nut04.PostMintBolt11Request{Quote: q.Id, Outputs: o.bms})
	if err != nil {
		t.Fatalf("MintTokens: %v", err)
	}
	return vUnblind(t, m, o, sigs)
}

// vDB wraps the real store: fail[k] makes the k-th call (1-based, counted
// over all methods) return an injected error; calls records method names.
type vDB struct {
	storage.MintDB
	n     int
	fail  map[int]bool
	crash map[int]bool
	calls []string
	onCall func(n int, name string)
}

func (d *vDB) hit(name string) error {
	d.n++
	d.calls = append(d.calls, name)
	if d.onCall != nil {
		d.onCall(d.n, name)
	}
	if d.crash[d.n] {
		panic(vCrash{name})
	}
	if d.fail[d.n] {
		return errors.New("verif: injected storage error")
	}
	return nil
}

// vCrash is the panic value used to simulate the death of the process right
// before a store call.
type vCrash struct{ at string }

func (d *vDB) SaveKeyset(k storage.DBKeyset) error {
	if err := d.hit("SaveKeyset"); err != nil {
		return err
	}
	return d.MintDB.SaveKeyset(k)
}
func (d *vDB) UpdateKeysetActive(id string, a bool) error {
	if err := d.hit("UpdateKeysetActive"); err != nil {
		return err
	}
	return d.MintDB.UpdateKeysetActive(id, a)
}

func (d *vDB) SaveProofs(p cashu.Proofs) error {
	if err := d.hit("SaveProofs"); err != nil {
		return err
	}
	return d.MintDB.SaveProofs(p)
}
func (d *vDB) SaveBlindSignatures(b []string, s cashu.BlindedSignatures) error {
	if err := d.hit("SaveBlindSignatures"); err != nil {
		return err
	}
	return d.MintDB.SaveBlindSignatures(b, s)
}
func (d *vDB) UpdateMintQuoteState(q string, s nut04.State) error {
	if err := d.hit("UpdateMintQuoteState"); err != nil {
		return err
	}
	return d.MintDB.UpdateMintQuoteState(q, s)
}
func (d *vDB) UpdateMeltQuote(q, p string, s nut05.State) error {
	if err := d.hit("UpdateMeltQuote"); err != nil {
		return err
	}
	return d.MintDB.UpdateMeltQuote(q, p, s)
}
func (d *vDB) AddPendingProofs(p cashu.Proofs, q string) error {
	if err := d.hit("AddPendingProofs"); err != nil {
		return err
	}
	return d.MintDB.AddPendingProofs(p, q)
}
func (d *vDB) RemovePendingProofs(y []string) error {
	if err := d.hit("RemovePendingProofs"); err != nil {
		return err
	}
	return d.MintDB.RemovePendingProofs(y)
}

// vLN is a scripted lightning backend on top of the fake one: it records the
// fee limits it is handed and can script pay / status answers.
type vLN struct {
	*lightning.FakeBackend
	maxFees   []uint64
	payStatus *lightning.PaymentStatus
	payErr    error
	statusAns []vStatusAns
	statusN   int
	feeReserve func(uint64) uint64
	anyInvoice bool
	unsettled  bool // incoming invoices are reported as not settled
	subGate    chan struct{} // when set, invoice notifications wait for this gate
}

type vStatusAns struct {
	st  lightning.PaymentStatus
	err error
}

func (l *vLN) SendPayment(ctx context.Context, request string, maxFee uint64) (lightning.PaymentStatus, error) {
	l.maxFees = append(l.maxFees, maxFee)
	if l.payStatus != nil || l.payErr != nil {
		var st lightning.PaymentStatus
		if l.payStatus != nil {
			st = *l.payStatus
		}
		return st, l.payErr
	}
	return l.FakeBackend.SendPayment(ctx, request, maxFee)
}

func (l *vLN) OutgoingPaymentStatus(ctx context.Context, hash string) (lightning.PaymentStatus, error) {
	if l.statusN < len(l.statusAns) {
		a := l.statusAns[l.statusN]
		l.statusN++
		return a.st, a.err
	}
	return l.FakeBackend.OutgoingPaymentStatus(ctx, hash)
}

func (l *vLN) CreateInvoice(amount uint64) (lightning.Invoice, error) {
	if l.anyInvoice {
		// a backend that issues an invoice for any amount
		return l.FakeBackend.CreateInvoice(1)
	}
	return l.FakeBackend.CreateInvoice(amount)
}

func (l *vLN) InvoiceStatus(hash string) (lightning.Invoice, error) {
	inv, err := l.FakeBackend.InvoiceStatus(hash)
	if l.unsettled {
		inv.Settled = false
	}
	return inv, err
}

// vGatedSub delivers the "settled" notification only when the test opens the gate.
type vGatedSub struct {
	gate chan struct{}
	inner lightning.InvoiceSubscriptionClient
}

func (s *vGatedSub) Recv() (lightning.Invoice, error) {
	<-s.gate
	return s.inner.Recv()
}

func (l *vLN) SubscribeInvoice(ctx context.Context, paymentHash string) (lightning.InvoiceSubscriptionClient, error) {
	if l.subGate != nil {
		inner, err := l.FakeBackend.SubscribeInvoice(ctx, paymentHash)
		if err != nil {
			return nil, err
		}
		return &vGatedSub{gate: l.subGate, inner: inner}, nil
	}
	if l.unsettled {
		return nil, errors.New("verif: no subscription")
	}
	return l.FakeBackend.SubscribeInvoice(ctx, paymentHash)
}

func (l *vLN) FeeReserve(amount uint64) uint64 {
	if l.feeReserve != nil {
		return l.feeReserve(amount)
	}
	return l.FakeBackend.FeeReserve(amount)
}
