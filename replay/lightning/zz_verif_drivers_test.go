package lightning

// Replay drivers of the govc checks for package mint/lightning (injected with
// `go test -overlay`, never part of the repository).

import (
	"encoding/json"
	"fmt"
	"io"
	"net/http"
	"net/http/httptest"
	"testing"
)

// C02 / C03: the invoice an adapter asks its node for is an invoice for the
// requested amount (A-LN1 at the adapter: amount sat = amount*1000 msat), or
// the request is refused - never an invoice for less.
func TestVerifReplay_CLNInvoiceAmountWrap(t *testing.T) {
	var asked []uint64
	srv := httptest.NewServer(http.HandlerFunc(func(rw http.ResponseWriter, req *http.Request) {
		b, _ := io.ReadAll(req.Body)
		var body struct {
			AmountMsat uint64 `json:"amount_msat"`
		}
		json.Unmarshal(b, &body)
		asked = append(asked, body.AmountMsat)
		fmt.Fprint(rw, `{"bolt11":"lnbc1...","payment_hash":"00"}`)
	}))
	defer srv.Close()
	cln, err := SetupCLNClient(CLNConfig{RestURL: srv.URL})
	if err != nil {
		t.Fatal(err)
	}
	amount := uint64(18446744073709552) // ceil(2^64 / 1000) sat
	inv, err := cln.CreateInvoice(amount)
	if err != nil {
		t.Logf("refused: %v", err)
		return
	}
	if len(asked) != 1 {
		t.Skipf("expected one request, saw %d", len(asked))
	}
	if asked[0]/1000 != amount {
		t.Fatalf("CONFIRMED: CreateInvoice(%d sat) asked the node for an invoice of %d msat and returned it as an invoice for %d sat: paying %d msat marks a mint quote of %d sat as paid", amount, asked[0], inv.Amount, asked[0], amount)
	}
}
