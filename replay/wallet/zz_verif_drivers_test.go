package wallet

// Replay drivers of the govc checks for package wallet (injected with
// `go test -overlay`, never part of the repository).

import (
	"encoding/hex"
	"encoding/json"
	"fmt"
	"net/http"
	"net/http/httptest"
	"os"
	"testing"

	"github.com/btcsuite/btcd/btcutil/hdkeychain"
	"github.com/btcsuite/btcd/chaincfg"
	"github.com/decred/dcrd/dcrec/secp256k1/v4"
	"github.com/elnosh/gonuts/cashu"
	"github.com/elnosh/gonuts/cashu/nuts/nut01"
	"github.com/elnosh/gonuts/cashu/nuts/nut03"
	"github.com/elnosh/gonuts/cashu/nuts/nut05"
	"github.com/elnosh/gonuts/cashu/nuts/nut07"
	"github.com/elnosh/gonuts/cashu/nuts/nut09"
	"github.com/elnosh/gonuts/cashu/nuts/nut13"
	"github.com/elnosh/gonuts/crypto"
	"github.com/elnosh/gonuts/wallet/storage"
	"github.com/tyler-smith/go-bip39"
)

// C19: the stored NUT-13 counter never moves backwards. The wallet keeps a copy
// of the active keyset in memory (counter as of load time); when the mint
// changes the input fee of that keyset the record is saved again.
func TestVerifReplay_FeeChangeRewindsCounter(t *testing.T) {
	const id = "009a1f293253e41e"
	fee := 0
	srv := httptest.NewServer(http.HandlerFunc(func(rw http.ResponseWriter, req *http.Request) {
		if req.URL.Path == "/v1/keysets" {
			fmt.Fprintf(rw, `{"keysets":[{"id":%q,"unit":"sat","active":true,"input_fee_ppk":%d}]}`, id, fee)
			return
		}
		rw.WriteHeader(http.StatusBadRequest)
	}))
	defer srv.Close()
	db, err := storage.InitBolt(t.TempDir())
	if err != nil {
		t.Fatal(err)
	}
	ks := crypto.WalletKeyset{Id: id, MintURL: srv.URL, Unit: "sat", Active: true, Counter: 0}
	if err := db.SaveKeyset(&ks); err != nil {
		t.Fatal(err)
	}
	// wallet loaded: its in-memory copy of the keyset has counter 0
	w := &Wallet{db: db, unit: cashu.Sat, defaultMint: srv.URL,
		mints: map[string]walletMint{srv.URL: {mintURL: srv.URL, activeKeyset: ks, inactiveKeysets: map[string]crypto.WalletKeyset{}}}}
	// five deterministic outputs get signed: the stored counter advances to 5
	if err := db.IncrementKeysetCounter(id, 5); err != nil {
		t.Fatal(err)
	}
	if c := w.counterForKeyset(id); c != 5 {
		t.Fatalf("setup: counter %d", c)
	}
	// the mint now charges a fee on the same keyset
	fee = 100
	if _, err := w.getActiveKeyset(srv.URL); err != nil {
		t.Fatal(err)
	}
	if c := w.counterForKeyset(id); c < 5 {
		t.Fatalf("CONFIRMED: after the fee change the stored counter is %d: the next outputs reuse counters %d..4 that were already signed", c, c)
	}
}

// vFakeMint is a minimal in-process mint for Restore: one sat keyset; it has
// signed (amount 1) exactly the NUT-13 outputs with counters < signed of the
// wallet with the given mnemonic, none of them spent.
func vFakeMint(t *testing.T, mnemonic string, signed uint32) (*httptest.Server, string) {
	seed := bip39.NewSeed(mnemonic, "")
	master, err := hdkeychain.NewMaster(seed, &chaincfg.MainNetParams)
	if err != nil {
		t.Fatal(err)
	}
	mintMaster, _ := hdkeychain.NewMaster([]byte("0123456789abcdef0123456789abcdef"), &chaincfg.MainNetParams)
	ks, err := crypto.GenerateKeyset(mintMaster, 0, 0, true)
	if err != nil {
		t.Fatal(err)
	}
	path, err := nut13.DeriveKeysetPath(master, ks.Id)
	if err != nil {
		t.Fatal(err)
	}
	known := map[string]bool{}
	for c := uint32(0); c < signed; c++ {
		secret, r, err := generateDeterministicSecret(path, c)
		if err != nil {
			t.Fatal(err)
		}
		B_, _, err := crypto.BlindMessage(secret, r)
		if err != nil {
			t.Fatal(err)
		}
		known[hex.EncodeToString(B_.SerializeCompressed())] = true
	}
	mux := http.NewServeMux()
	mux.HandleFunc("/v1/info", func(rw http.ResponseWriter, req *http.Request) {
		fmt.Fprint(rw, `{"name":"verif","pubkey":"","version":"v","description":"","nuts":{"4":{"methods":[],"disabled":false},"5":{"methods":[],"disabled":false},"7":{"supported":true},"8":{"supported":true},"9":{"supported":true},"10":{"supported":true},"11":{"supported":true},"12":{"supported":true}}}`)
	})
	mux.HandleFunc("/v1/keysets", func(rw http.ResponseWriter, req *http.Request) {
		fmt.Fprintf(rw, `{"keysets":[{"id":%q,"unit":"sat","active":true,"input_fee_ppk":0}]}`, ks.Id)
	})
	mux.HandleFunc("/v1/keys/"+ks.Id, func(rw http.ResponseWriter, req *http.Request) {
		json.NewEncoder(rw).Encode(nut01.GetKeysResponse{Keysets: []nut01.Keyset{{Id: ks.Id, Unit: "sat", Keys: ks.PublicKeys()}}})
	})
	mux.HandleFunc("/v1/restore", func(rw http.ResponseWriter, req *http.Request) {
		var r nut09.PostRestoreRequest
		json.NewDecoder(req.Body).Decode(&r)
		var resp nut09.PostRestoreResponse
		resp.Outputs = cashu.BlindedMessages{}
		resp.Signatures = cashu.BlindedSignatures{}
		for _, o := range r.Outputs {
			if !known[o.B_] {
				continue
			}
			b, _ := hex.DecodeString(o.B_)
			B_, _ := secp256k1.ParsePubKey(b)
			C_ := crypto.SignBlindedMessage(B_, ks.Keys[1].PrivateKey)
			o.Amount = 1
			resp.Outputs = append(resp.Outputs, o)
			resp.Signatures = append(resp.Signatures, cashu.BlindedSignature{Amount: 1, Id: ks.Id, C_: hex.EncodeToString(C_.SerializeCompressed())})
		}
		json.NewEncoder(rw).Encode(resp)
	})
	mux.HandleFunc("/v1/checkstate", func(rw http.ResponseWriter, req *http.Request) {
		var r nut07.PostCheckStateRequest
		json.NewDecoder(req.Body).Decode(&r)
		resp := nut07.PostCheckStateResponse{}
		for _, y := range r.Ys {
			resp.States = append(resp.States, nut07.ProofState{Y: y, State: nut07.Unspent})
		}
		json.NewEncoder(rw).Encode(resp)
	})
	srv := httptest.NewServer(mux)
	t.Cleanup(srv.Close)
	return srv, ks.Id
}

// C19: after a restore the stored counter must be past every counter in use,
// and close enough to it that a later restore from the same mnemonic (which
// gives up after 3 empty batches = 300 counters) still finds what the restored
// wallet creates next.
func TestVerifReplay_RestoreCounter(t *testing.T) {
	var a struct{ Signed uint32 }
	a.Signed = 350
	if s := os.Getenv("VERIF_REPLAY_ARGS"); s != "" {
		json.Unmarshal([]byte(s), &a)
	}
	const mnemonic = "half depart obvious quality work element tank gorilla view sugar picture humble"
	srv, id := vFakeMint(t, mnemonic, a.Signed)
	dir := t.TempDir()
	amount, err := Restore(dir, mnemonic, []string{srv.URL})
	if err != nil {
		t.Fatal(err)
	}
	if amount != uint64(a.Signed) {
		t.Fatalf("restored %d of %d", amount, a.Signed)
	}
	db, err := storage.InitBolt(dir)
	if err != nil {
		t.Fatal(err)
	}
	defer db.Close()
	c := db.GetKeysetCounter(id)
	if c < a.Signed {
		t.Fatalf("CONFIRMED: stored counter %d is not past the %d counters in use", c, a.Signed)
	}
	if c-a.Signed >= 300 {
		t.Fatalf("CONFIRMED: %d counters in use, stored counter after restore is %d: the restored wallet continues %d counters further on, beyond the 300-counter gap at which a later restore from the same mnemonic stops scanning", a.Signed, c, c-a.Signed)
	}
}

// vSwapMint: an in-process mint with one sat keyset charging feePpk that signs
// every output of a swap (inputs are not checked).
func vSwapMint(t *testing.T, feePpk uint) (*httptest.Server, *crypto.MintKeyset) {
	mintMaster, _ := hdkeychain.NewMaster([]byte("0123456789abcdef0123456789abcdef"), &chaincfg.MainNetParams)
	ks, err := crypto.GenerateKeyset(mintMaster, 0, feePpk, true)
	if err != nil {
		t.Fatal(err)
	}
	mux := http.NewServeMux()
	mux.HandleFunc("/v1/keysets", func(rw http.ResponseWriter, req *http.Request) {
		fmt.Fprintf(rw, `{"keysets":[{"id":%q,"unit":"sat","active":true,"input_fee_ppk":%d}]}`, ks.Id, feePpk)
	})
	mux.HandleFunc("/v1/swap", func(rw http.ResponseWriter, req *http.Request) {
		var r nut03.PostSwapRequest
		json.NewDecoder(req.Body).Decode(&r)
		resp := nut03.PostSwapResponse{Signatures: cashu.BlindedSignatures{}}
		for _, o := range r.Outputs {
			b, _ := hex.DecodeString(o.B_)
			B_, _ := secp256k1.ParsePubKey(b)
			C_ := crypto.SignBlindedMessage(B_, ks.Keys[o.Amount].PrivateKey)
			resp.Signatures = append(resp.Signatures, cashu.BlindedSignature{Amount: o.Amount, Id: ks.Id, C_: hex.EncodeToString(C_.SerializeCompressed())})
		}
		json.NewEncoder(rw).Encode(resp)
	})
	srv := httptest.NewServer(mux)
	t.Cleanup(srv.Close)
	return srv, ks
}

// C18: with includeFees the proofs handed out are worth the amount plus the
// input fee the mint charges for exactly those proofs.
func TestVerifReplay_SendFeeEstimate(t *testing.T) {
	var a struct {
		Amount uint64
		FeePpk uint
	}
	a.Amount, a.FeePpk = 3, 1000
	if s := os.Getenv("VERIF_REPLAY_ARGS"); s != "" {
		json.Unmarshal([]byte(s), &a)
	}
	srv, ks := vSwapMint(t, a.FeePpk)
	db, err := storage.InitBolt(t.TempDir())
	if err != nil {
		t.Fatal(err)
	}
	defer db.Close()
	wk := crypto.WalletKeyset{Id: ks.Id, MintURL: srv.URL, Unit: "sat", Active: true, PublicKeys: ks.PublicKeys(), InputFeePpk: a.FeePpk}
	if err := db.SaveKeyset(&wk); err != nil {
		t.Fatal(err)
	}
	var have cashu.Proofs
	for i := 0; i < 6; i++ {
		have = append(have, cashu.Proof{Amount: 16, Id: ks.Id, Secret: fmt.Sprintf("stored-%d", i), C: "02" + fmt.Sprintf("%064x", i+1)})
	}
	if err := db.SaveProofs(have); err != nil {
		t.Fatal(err)
	}
	master, _ := hdkeychain.NewMaster([]byte("fedcba9876543210fedcba9876543210"), &chaincfg.MainNetParams)
	mint := walletMint{mintURL: srv.URL, activeKeyset: wk, inactiveKeysets: map[string]crypto.WalletKeyset{}}
	w := &Wallet{db: db, unit: cashu.Sat, defaultMint: srv.URL, masterKey: master, mints: map[string]walletMint{srv.URL: mint}}
	proofs, err := w.swapToSend(a.Amount, &mint, nil, true)
	if err != nil {
		t.Skipf("send failed: %v", err)
	}
	mintFee := (uint64(len(proofs))*uint64(a.FeePpk) + 999) / 1000
	if proofs.Amount() != a.Amount+mintFee {
		t.Fatalf("CONFIRMED: send of %d with fees included at %d ppk hands out %d proofs worth %d; the mint charges %d for them, so the recipient nets %d instead of %d",
			a.Amount, a.FeePpk, len(proofs), proofs.Amount(), mintFee, int64(proofs.Amount())-int64(mintFee), a.Amount)
	}
}

// C19: swapToTrusted on a P2PK SIG_ALL token first swaps at the token's mint
// with outputs derived from the stored counter of that mint's active keyset.
// Nothing advances that counter afterwards: a second such receive from the
// same mint derives - and submits for signing - the very same outputs.
func TestVerifReplay_SwapToTrustedReusesCounters(t *testing.T) {
	mintMaster, _ := hdkeychain.NewMaster([]byte("0123456789abcdef0123456789abcdef"), &chaincfg.MainNetParams)
	ks, err := crypto.GenerateKeyset(mintMaster, 0, 0, true)
	if err != nil {
		t.Fatal(err)
	}
	var submitted [][]string // B_ lists of the swap requests, in order
	mux := http.NewServeMux()
	mux.HandleFunc("/v1/swap", func(rw http.ResponseWriter, req *http.Request) {
		var r nut03.PostSwapRequest
		json.NewDecoder(req.Body).Decode(&r)
		var bs []string
		resp := nut03.PostSwapResponse{Signatures: cashu.BlindedSignatures{}}
		for _, o := range r.Outputs {
			bs = append(bs, o.B_)
			b, _ := hex.DecodeString(o.B_)
			B_, _ := secp256k1.ParsePubKey(b)
			C_ := crypto.SignBlindedMessage(B_, ks.Keys[o.Amount].PrivateKey)
			resp.Signatures = append(resp.Signatures, cashu.BlindedSignature{Amount: o.Amount, Id: ks.Id, C_: hex.EncodeToString(C_.SerializeCompressed())})
		}
		submitted = append(submitted, bs)
		json.NewEncoder(rw).Encode(resp)
	})
	srv := httptest.NewServer(mux) // every other endpoint (mint/melt quotes of the default mint) answers 404
	defer srv.Close()
	db, err := storage.InitBolt(t.TempDir())
	if err != nil {
		t.Fatal(err)
	}
	defer db.Close()
	wk := crypto.WalletKeyset{Id: ks.Id, MintURL: srv.URL, Unit: "sat", Active: true, PublicKeys: ks.PublicKeys()}
	if err := db.SaveKeyset(&wk); err != nil {
		t.Fatal(err)
	}
	master, _ := hdkeychain.NewMaster([]byte("fedcba9876543210fedcba9876543210"), &chaincfg.MainNetParams)
	priv, _ := secp256k1.GeneratePrivateKey()
	mint := walletMint{mintURL: srv.URL, activeKeyset: wk, inactiveKeysets: map[string]crypto.WalletKeyset{}}
	w := &Wallet{db: db, unit: cashu.Sat, defaultMint: "http://127.0.0.1:1", masterKey: master, privateKey: priv,
		mints: map[string]walletMint{srv.URL: mint, "http://127.0.0.1:1": {mintURL: "http://127.0.0.1:1", activeKeyset: wk}}}
	secret := fmt.Sprintf(`["P2PK",{"nonce":"da62796403af76c80cd6ce9153ed3746","data":%q,"tags":[["sigflag","SIG_ALL"]]}]`, hex.EncodeToString(priv.PubKey().SerializeCompressed()))
	for round := 0; round < 2; round++ {
		proofs := cashu.Proofs{{Amount: 8, Id: ks.Id, Secret: secret, C: "02" + fmt.Sprintf("%064x", round+1)}}
		w.swapToTrusted(proofs, &mint) // the melt/mint leg towards the unreachable default mint fails; the swap at the token's mint has happened
	}
	if len(submitted) != 2 {
		t.Skipf("expected two swap requests, saw %d", len(submitted))
	}
	seen := map[string]bool{}
	for _, b := range submitted[0] {
		seen[b] = true
	}
	for _, b := range submitted[1] {
		if seen[b] {
			t.Fatalf("CONFIRMED: the second SIG_ALL receive submitted output %s for signing again: it is derived from a (keyset, counter) pair that the first receive already had signed (stored counter still %d)", b, db.GetKeysetCounter(ks.Id))
		}
	}
}

// C19: two receives (no swap to the default mint) from the same trusted mint
// never submit the same output twice: the stored counter is advanced past the
// outputs of the first before the second derives its own.
func TestVerifReplay_ReceiveAdvancesCounter(t *testing.T) {
	mintMaster, _ := hdkeychain.NewMaster([]byte("0123456789abcdef0123456789abcdef"), &chaincfg.MainNetParams)
	ks, err := crypto.GenerateKeyset(mintMaster, 0, 0, true)
	if err != nil {
		t.Fatal(err)
	}
	var submitted [][]string
	mux := http.NewServeMux()
	mux.HandleFunc("/v1/keysets", func(rw http.ResponseWriter, req *http.Request) {
		fmt.Fprintf(rw, `{"keysets":[{"id":%q,"unit":"sat","active":true,"input_fee_ppk":0}]}`, ks.Id)
	})
	mux.HandleFunc("/v1/swap", func(rw http.ResponseWriter, req *http.Request) {
		var r nut03.PostSwapRequest
		json.NewDecoder(req.Body).Decode(&r)
		var bs []string
		resp := nut03.PostSwapResponse{Signatures: cashu.BlindedSignatures{}}
		for _, o := range r.Outputs {
			bs = append(bs, o.B_)
			b, _ := hex.DecodeString(o.B_)
			B_, _ := secp256k1.ParsePubKey(b)
			C_ := crypto.SignBlindedMessage(B_, ks.Keys[o.Amount].PrivateKey)
			resp.Signatures = append(resp.Signatures, cashu.BlindedSignature{Amount: o.Amount, Id: ks.Id, C_: hex.EncodeToString(C_.SerializeCompressed())})
		}
		submitted = append(submitted, bs)
		json.NewEncoder(rw).Encode(resp)
	})
	srv := httptest.NewServer(mux)
	defer srv.Close()
	db, err := storage.InitBolt(t.TempDir())
	if err != nil {
		t.Fatal(err)
	}
	defer db.Close()
	wk := crypto.WalletKeyset{Id: ks.Id, MintURL: srv.URL, Unit: "sat", Active: true, PublicKeys: ks.PublicKeys()}
	if err := db.SaveKeyset(&wk); err != nil {
		t.Fatal(err)
	}
	master, _ := hdkeychain.NewMaster([]byte("fedcba9876543210fedcba9876543210"), &chaincfg.MainNetParams)
	priv, _ := secp256k1.GeneratePrivateKey()
	w := &Wallet{db: db, unit: cashu.Sat, defaultMint: srv.URL, masterKey: master, privateKey: priv,
		mints: map[string]walletMint{srv.URL: {mintURL: srv.URL, activeKeyset: wk, inactiveKeysets: map[string]crypto.WalletKeyset{}}}}
	for round := 0; round < 2; round++ {
		proofs := cashu.Proofs{{Amount: 8, Id: ks.Id, Secret: fmt.Sprintf("received-%d", round), C: "02" + fmt.Sprintf("%064x", round+1)}}
		token, err := cashu.NewTokenV4(proofs, srv.URL, cashu.Sat, false)
		if err != nil {
			t.Fatal(err)
		}
		if _, err := w.Receive(token, false); err != nil {
			t.Skipf("receive %d failed: %v", round, err)
		}
	}
	if len(submitted) != 2 {
		t.Skipf("expected two swap requests, saw %d", len(submitted))
	}
	seen := map[string]bool{}
	for _, b := range submitted[0] {
		seen[b] = true
	}
	for _, b := range submitted[1] {
		if seen[b] {
			t.Fatalf("CONFIRMED: the second receive submitted output %s for signing again (stored counter %d after two receives)", b, db.GetKeysetCounter(ks.Id))
		}
	}
}

// C19: a melt that stays PENDING and is later found PAID with NUT-08 change:
// the change outputs were derived from the ACTIVE keyset's counter at melt time,
// so that is the counter that has to move past them - also when the inputs of
// the melt came from an older (inactive) keyset.
func TestVerifReplay_PendingMeltChangeCounter(t *testing.T) {
	mintMaster, _ := hdkeychain.NewMaster([]byte("0123456789abcdef0123456789abcdef"), &chaincfg.MainNetParams)
	oldKs, err := crypto.GenerateKeyset(mintMaster, 0, 0, false)
	if err != nil {
		t.Fatal(err)
	}
	newKs, err := crypto.GenerateKeyset(mintMaster, 1, 0, true)
	if err != nil {
		t.Fatal(err)
	}
	var blank cashu.BlindedMessages // the blank outputs of the melt request
	const quoteId = "melt-quote-1"
	mux := http.NewServeMux()
	mux.HandleFunc("/v1/keysets", func(rw http.ResponseWriter, req *http.Request) {
		fmt.Fprintf(rw, `{"keysets":[{"id":%q,"unit":"sat","active":false,"input_fee_ppk":0},{"id":%q,"unit":"sat","active":true,"input_fee_ppk":0}]}`, oldKs.Id, newKs.Id)
	})
	mux.HandleFunc("/v1/melt/bolt11", func(rw http.ResponseWriter, req *http.Request) {
		var r nut05.PostMeltBolt11Request
		json.NewDecoder(req.Body).Decode(&r)
		blank = r.Outputs
		json.NewEncoder(rw).Encode(&nut05.PostMeltQuoteBolt11Response{Quote: quoteId, Amount: 8, FeeReserve: 8, State: nut05.Pending})
	})
	mux.HandleFunc("/v1/melt/quote/bolt11/"+quoteId, func(rw http.ResponseWriter, req *http.Request) {
		// the payment went through with 3 sat of the fee reserve unused: change on the first two blank outputs
		resp := nut05.PostMeltQuoteBolt11Response{Quote: quoteId, Amount: 8, FeeReserve: 8, State: nut05.Paid, Preimage: "00"}
		for i, amt := range []uint64{1, 2} {
			if i >= len(blank) {
				break
			}
			b, _ := hex.DecodeString(blank[i].B_)
			B_, _ := secp256k1.ParsePubKey(b)
			C_ := crypto.SignBlindedMessage(B_, newKs.Keys[amt].PrivateKey)
			resp.Change = append(resp.Change, cashu.BlindedSignature{Amount: amt, Id: newKs.Id, C_: hex.EncodeToString(C_.SerializeCompressed())})
		}
		json.NewEncoder(rw).Encode(&resp)
	})
	srv := httptest.NewServer(mux)
	defer srv.Close()
	db, err := storage.InitBolt(t.TempDir())
	if err != nil {
		t.Fatal(err)
	}
	defer db.Close()
	wOld := crypto.WalletKeyset{Id: oldKs.Id, MintURL: srv.URL, Unit: "sat", Active: false, PublicKeys: oldKs.PublicKeys()}
	wNew := crypto.WalletKeyset{Id: newKs.Id, MintURL: srv.URL, Unit: "sat", Active: true, PublicKeys: newKs.PublicKeys()}
	if err := db.SaveKeyset(&wOld); err != nil {
		t.Fatal(err)
	}
	if err := db.SaveKeyset(&wNew); err != nil {
		t.Fatal(err)
	}
	// the wallet only holds ecash of the old keyset (the mint rotated since)
	have := cashu.Proofs{
		{Amount: 8, Id: oldKs.Id, Secret: "old-8a", C: "02" + fmt.Sprintf("%064x", 1)},
		{Amount: 8, Id: oldKs.Id, Secret: "old-8b", C: "02" + fmt.Sprintf("%064x", 2)},
	}
	if err := db.SaveProofs(have); err != nil {
		t.Fatal(err)
	}
	if err := db.SaveMeltQuote(storage.MeltQuote{QuoteId: quoteId, Mint: srv.URL, Method: "bolt11", State: nut05.Unpaid, Unit: "sat", Amount: 8, FeeReserve: 8}); err != nil {
		t.Fatal(err)
	}
	master, _ := hdkeychain.NewMaster([]byte("fedcba9876543210fedcba9876543210"), &chaincfg.MainNetParams)
	wOldNoKeys := wOld
	w := &Wallet{db: db, unit: cashu.Sat, defaultMint: srv.URL, masterKey: master,
		mints: map[string]walletMint{srv.URL: {mintURL: srv.URL, activeKeyset: wNew, inactiveKeysets: map[string]crypto.WalletKeyset{oldKs.Id: wOldNoKeys}}}}
	before := db.GetKeysetCounter(newKs.Id)
	resp, err := w.Melt(quoteId)
	if err != nil {
		t.Skipf("melt failed: %v", err)
	}
	if resp.State != nut05.Pending || len(blank) < 2 {
		t.Skipf("setup: state %v, %d blank outputs", resp.State, len(blank))
	}
	st, err := w.CheckMeltQuoteState(quoteId)
	if err != nil {
		t.Skipf("state check failed: %v", err)
	}
	if st.State != nut05.Paid || len(st.Change) != 2 {
		t.Skipf("setup: state %v change %d", st.State, len(st.Change))
	}
	after := db.GetKeysetCounter(newKs.Id)
	if after < before+2 {
		t.Fatalf("CONFIRMED: the mint signed 2 change outputs derived from counters %d..%d of the active keyset %s; after the state check its stored counter is %d (the counter of the INPUTS' keyset %s went from 0 to %d instead): the next outputs of %s reuse counters that are already signed",
			before, before+1, newKs.Id, after, oldKs.Id, db.GetKeysetCounter(oldKs.Id), newKs.Id)
	}
}

// C19: adding a mint never moves a stored counter backwards. Receive looks the
// token's mint up by the raw URL string of the token; AddMint stores it under
// the parsed form. A token of an already trusted mint whose URL is spelled
// differently (scheme in upper case) goes through AddMint again.
func TestVerifReplay_AddMintKeepsCounter(t *testing.T) {
	mintMaster, _ := hdkeychain.NewMaster([]byte("0123456789abcdef0123456789abcdef"), &chaincfg.MainNetParams)
	ks, err := crypto.GenerateKeyset(mintMaster, 0, 0, true)
	if err != nil {
		t.Fatal(err)
	}
	mux := http.NewServeMux()
	mux.HandleFunc("/v1/keysets", func(rw http.ResponseWriter, req *http.Request) {
		fmt.Fprintf(rw, `{"keysets":[{"id":%q,"unit":"sat","active":true,"input_fee_ppk":0}]}`, ks.Id)
	})
	mux.HandleFunc("/v1/keys/"+ks.Id, func(rw http.ResponseWriter, req *http.Request) {
		json.NewEncoder(rw).Encode(nut01.GetKeysResponse{Keysets: []nut01.Keyset{{Id: ks.Id, Unit: "sat", Keys: ks.PublicKeys()}}})
	})
	mux.HandleFunc("/v1/swap", func(rw http.ResponseWriter, req *http.Request) {
		var r nut03.PostSwapRequest
		json.NewDecoder(req.Body).Decode(&r)
		resp := nut03.PostSwapResponse{Signatures: cashu.BlindedSignatures{}}
		for _, o := range r.Outputs {
			b, _ := hex.DecodeString(o.B_)
			B_, _ := secp256k1.ParsePubKey(b)
			C_ := crypto.SignBlindedMessage(B_, ks.Keys[o.Amount].PrivateKey)
			resp.Signatures = append(resp.Signatures, cashu.BlindedSignature{Amount: o.Amount, Id: ks.Id, C_: hex.EncodeToString(C_.SerializeCompressed())})
		}
		json.NewEncoder(rw).Encode(resp)
	})
	srv := httptest.NewServer(mux)
	defer srv.Close()
	db, err := storage.InitBolt(t.TempDir())
	if err != nil {
		t.Fatal(err)
	}
	defer db.Close()
	wk := crypto.WalletKeyset{Id: ks.Id, MintURL: srv.URL, Unit: "sat", Active: true, PublicKeys: ks.PublicKeys(), Counter: 0}
	if err := db.SaveKeyset(&wk); err != nil {
		t.Fatal(err)
	}
	if err := db.IncrementKeysetCounter(ks.Id, 7); err != nil { // seven outputs of this keyset were signed so far
		t.Fatal(err)
	}
	master, _ := hdkeychain.NewMaster([]byte("fedcba9876543210fedcba9876543210"), &chaincfg.MainNetParams)
	priv, _ := secp256k1.GeneratePrivateKey()
	w := &Wallet{db: db, unit: cashu.Sat, defaultMint: srv.URL, masterKey: master, privateKey: priv,
		mints: map[string]walletMint{srv.URL: {mintURL: srv.URL, activeKeyset: wk, inactiveKeysets: map[string]crypto.WalletKeyset{}}}}
	// the same mint, scheme spelled in upper case (srv.URL is http://127.0.0.1:port)
	odd := "HTTP" + srv.URL[4:]
	proofs := cashu.Proofs{{Amount: 8, Id: ks.Id, Secret: "received-odd-url", C: "02" + fmt.Sprintf("%064x", 9)}}
	token, err := cashu.NewTokenV4(proofs, odd, cashu.Sat, false)
	if err != nil {
		t.Fatal(err)
	}
	_, rerr := w.Receive(token, false)
	if c := db.GetKeysetCounter(ks.Id); c < 7 {
		t.Fatalf("CONFIRMED: receiving a token that spells the trusted mint's URL as %s went through AddMint, which saved the keyset record with counter 0: stored counter of %s is now %d although counters 0..6 are signed (Receive returned: %v)", odd, ks.Id, c, rerr)
	}
}
