package wallet

// Replay drivers of the govc checks for package wallet (injected with
// `go test -overlay`, never part of the repository).

import (
	"fmt"
	"net/http"
	"net/http/httptest"
	"testing"

	"github.com/elnosh/gonuts/cashu"
	"github.com/elnosh/gonuts/crypto"
	"github.com/elnosh/gonuts/wallet/storage"
)

// C19: the stored NUT-13 counter never moves backwards. The wallet keeps a copy
// of the active keyset in memory (counter as of load time); when the mint
// changes the input fee of that keyset the record is saved again.
func TestVerifReplay_FeeChangeRewindsCounter(t *testing.T) {
	const id = "009a1f293253e41e"
	fee := 0
	srv := httptest.NewServer(http.HandlerFunc(func(rw http.ResponseWriter, req *http.Request) {
		if req.URL.Path == "/v1/keysets" {
			fmt.Fprintf(rw, `{"keysets":[{"id":%q,"unit":"sat","active":true,"input_fee_ppk":%d}]}`, id, fee)
			return
		}
		rw.WriteHeader(http.StatusBadRequest)
	}))
	defer srv.Close()
	db, err := storage.InitBolt(t.TempDir())
	if err != nil {
		t.Fatal(err)
	}
	ks := crypto.WalletKeyset{Id: id, MintURL: srv.URL, Unit: "sat", Active: true, Counter: 0}
	if err := db.SaveKeyset(&ks); err != nil {
		t.Fatal(err)
	}
	// wallet loaded: its in-memory copy of the keyset has counter 0
	w := &Wallet{db: db, unit: cashu.Sat, defaultMint: srv.URL,
		mints: map[string]walletMint{srv.URL: {mintURL: srv.URL, activeKeyset: ks, inactiveKeysets: map[string]crypto.WalletKeyset{}}}}
	// five deterministic outputs get signed: the stored counter advances to 5
	if err := db.IncrementKeysetCounter(id, 5); err != nil {
		t.Fatal(err)
	}
	if c := w.counterForKeyset(id); c != 5 {
		t.Fatalf("setup: counter %d", c)
	}
	// the mint now charges a fee on the same keyset
	fee = 100
	if _, err := w.getActiveKeyset(srv.URL); err != nil {
		t.Fatal(err)
	}
	if c := w.counterForKeyset(id); c < 5 {
		t.Fatalf("CONFIRMED: after the fee change the stored counter is %d: the next outputs reuse counters %d..4 that were already signed", c, c)
	}
}
