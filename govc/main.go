package main

import (
	"encoding/json"
	"flag"
	"fmt"
	"os"
	"path/filepath"
	"regexp"
	"sort"
	"strings"
	"sync"
	"time"

	"golang.org/x/tools/go/ssa"
)

type OblResult struct {
	Fn         string            `json:"fn"`
	Name       string            `json:"name"`
	Kind       string            `json:"kind"`
	Tags       []string          `json:"tags"`
	Src        string            `json:"src"`
	Pos        string            `json:"pos,omitempty"`
	Status     string            `json:"status"`
	Solver     string            `json:"solver,omitempty"`
	TimeS      float64           `json:"time_s"`
	Query      string            `json:"query,omitempty"`
	Model      string            `json:"model,omitempty"`
	Outputs    map[string]string `json:"outputs,omitempty"`
	ExpectSat  bool              `json:"expect_sat,omitempty"`
	Abstracted bool              `json:"abstracted,omitempty"`
	OK         bool              `json:"ok"`
}

type FnResult struct {
	Fn            string   `json:"fn"`
	Blocks        int      `json:"blocks"`
	Instrs        int      `json:"instrs"`
	Abstractions  []string `json:"abstractions,omitempty"`
	Trusted       []string `json:"trusted_callees,omitempty"`
	Unconstrained []string `json:"uncontracted_callees,omitempty"`
	Failed        string   `json:"failed,omitempty"`
	Obligations   int      `json:"obligations"`
}

type Output struct {
	Props       []string     `json:"props"`
	LoadS       float64      `json:"load_s"`
	WallS       float64      `json:"wall_s"`
	Functions   []FnResult   `json:"functions"`
	Obligations []*OblResult `json:"obligations"`
	Errors      []string     `json:"errors,omitempty"`
}

var loadPatterns = []string{"./cashu/...", "./crypto/...", "./mint", "./mint/manager", "./mint/storage/...", "./mint/lightning", "./wallet", "./wallet/client", "./wallet/storage"}

func main() {
	repo := flag.String("repo", "/repo", "repository root")
	verif := flag.String("verif", "/verif", "verification root")
	propsF := flag.String("props", "", "comma separated property ids (empty = all)")
	fnFilter := flag.String("fn", "", "only functions whose key contains this")
	outDir := flag.String("out", "", "output directory for queries and results")
	timeout := flag.Int("timeout", 10, "per-obligation solver budget (s)")
	jobs := flag.Int("j", 12, "parallel obligations")
	dump := flag.Bool("dump", false, "print SSA of the selected functions")
	noSolve := flag.Bool("nosolve", false, "generate queries only")
	perReturn := flag.Bool("perreturn", false, "debug: one postcondition obligation per return statement")
	only := flag.String("only", "", "only obligations whose name contains this")
	fastF := flag.String("fast", "", "file with `fn-substring<TAB>obligation-regex` lines: matching obligations get a 3 s budget (known findings)")
	modsetOf := flag.String("modset", "", "debug: print the computed modifies set of functions whose key contains this")
	overlayF := flag.String("overlay", "", "JSON file mapping source paths to replacement files (mutation self-tests)")
	probeT := flag.Int("probe", 2, "solver budget (s) of the vacuity probes; the self-test runs them longer to look for an inconsistent prelude")
	namesOut := flag.String("names", "", "write the table of contract-named locals and their Go types to this file (run on the unchanged tree)")
	patternsF := flag.String("patterns", "", "comma separated package patterns (default: the gonuts packages under contract)")
	flag.Parse()
	if *patternsF != "" {
		loadPatterns = strings.Split(*patternsF, ",")
	}
	t0 := time.Now()
	if *outDir == "" {
		*outDir = filepath.Join(*verif, "out", "last")
	}
	os.RemoveAll(*outDir)
	os.MkdirAll(*outDir, 0755)
	out := &Output{}
	fatal := func(err error) {
		out.Errors = append(out.Errors, err.Error())
		writeOut(*outDir, out)
		fmt.Fprintln(os.Stderr, "govc:", err)
		os.Exit(2)
	}
	var overlay map[string][]byte
	if *overlayF != "" {
		data, err := os.ReadFile(*overlayF)
		if err != nil {
			fatal(err)
		}
		var m map[string]string
		if err := json.Unmarshal(data, &m); err != nil {
			fatal(err)
		}
		overlay = map[string][]byte{}
		for k, v := range m {
			b, err := os.ReadFile(v)
			if err != nil {
				fatal(err)
			}
			overlay[k] = b
		}
	}
	e, err := LoadEngine(*repo, loadPatterns, []string{filepath.Join(*verif, "contracts")},
		[]string{filepath.Join(*verif, "contracts", "prelude.smt2")}, overlay)
	if err != nil {
		fatal(err)
	}
	if err := e.loadPureList(filepath.Join(*verif, "contracts", "pure.txt")); err != nil {
		fatal(err)
	}
	if *namesOut != "" {
		e.recNames = map[string]map[string]string{}
	} else if data, err := os.ReadFile(filepath.Join(*verif, "contracts", "names.json")); err == nil {
		json.Unmarshal(data, &e.names)
	}
	type fastRule struct {
		fn string
		re *regexp.Regexp
	}
	var fastRules []fastRule
	if *fastF != "" {
		if data, err := os.ReadFile(*fastF); err == nil {
			for _, ln := range strings.Split(string(data), "\n") {
				f := strings.SplitN(ln, "\t", 2)
				if len(f) == 2 {
					if re, err := regexp.Compile("^(" + f[1] + ")$"); err == nil {
						fastRules = append(fastRules, fastRule{f[0], re})
					}
				}
			}
		}
	}
	isFast := func(fn, name string) bool {
		for _, r := range fastRules {
			if strings.Contains(strings.NewReplacer("(", "", ")", "", "*", "").Replace(fn), r.fn) && r.re.MatchString(name) {
				return true
			}
		}
		return false
	}
	e.perReturn = *perReturn
	if *modsetOf != "" {
		for k := range e.fnByKey {
			if strings.Contains(k, *modsetOf) {
				fmt.Println(k, e.modSet(k, e.contracts.Fns[k]))
			}
		}
		return
	}
	out.LoadS = time.Since(t0).Seconds()
	want := map[string]bool{}
	for _, p := range strings.Split(*propsF, ",") {
		if p = strings.TrimSpace(p); p != "" {
			want[p] = true
			out.Props = append(out.Props, p)
		}
	}
	wanted := func(tags []string) bool {
		if len(want) == 0 {
			return true
		}
		for _, t := range tags {
			if want[t] {
				return true
			}
		}
		return false
	}
	type job struct {
		ft *FT
		o  *Obligation
		r  *OblResult
	}
	var jobs_ []*job
	keys := append([]string{}, e.contracts.Order...)
	sort.Strings(keys)
	for _, key := range keys {
		con := e.contracts.Fns[key]
		if con.Trusted || con.NoBody {
			continue
		}
		if *fnFilter != "" && !strings.Contains(key, *fnFilter) {
			continue
		}
		// does any clause of this contract carry a wanted tag?
		all := append(append([]string{}, con.Tags...), con.Safety...)
		for _, cs := range [][]*Clause{con.Requires, con.Ensures, con.Invariants, con.Calls, con.Boundary, con.RgEnsures, con.RgCalls} {
			for _, c := range cs {
				all = append(all, c.Tags...)
			}
		}
		if !wanted(all) {
			continue
		}
		fn := e.fnByKey[key]
		if fn == nil || fn.Blocks == nil {
			out.Functions = append(out.Functions, FnResult{Fn: key, Failed: "shape: contract target not found in the program"})
			out.Obligations = append(out.Obligations, &OblResult{Fn: key, Name: "shape:target", Kind: "shape", Tags: all, Status: "missing", Src: "contract target " + key + " does not exist"})
			continue
		}
		if *dump {
			fn.WriteTo(os.Stdout)
			for _, af := range fn.AnonFuncs {
				af.WriteTo(os.Stdout)
			}
		}
		ft := e.Verify(fn, con)
		fr := FnResult{Fn: key, Blocks: len(fn.Blocks), Abstractions: ft.sortedAbstractions(), Failed: ft.failed}
		for _, b := range fn.Blocks {
			fr.Instrs += len(b.Instrs)
		}
		fr.Trusted = sortedKeys(ft.trusted)
		fr.Unconstrained = sortedKeys(ft.unconstrained)
		if ft.failed != "" {
			out.Obligations = append(out.Obligations, &OblResult{Fn: key, Name: "engine:translate", Kind: "engine", Tags: all, Status: "error", Src: ft.failed})
		}
		obls := ft.obls
		var rgft *FT
		if len(con.RgEnsures)+len(con.RgCalls) > 0 {
			rgft = e.VerifyRG(fn, con)
			if rgft.failed != "" {
				out.Obligations = append(out.Obligations, &OblResult{Fn: key, Name: "engine:translate-rg", Kind: "engine", Tags: all, Status: "error", Src: rgft.failed})
			}
			for k := range rgft.trusted {
				fr.Trusted = append(fr.Trusted, "rg tier: "+k)
			}
		}
		type fo struct {
			ft *FT
			o  *Obligation
		}
		var fos []fo
		for _, o := range obls {
			fos = append(fos, fo{ft, o})
		}
		if rgft != nil {
			for _, o := range rgft.obls {
				if o.Kind == "vacuity" {
					continue
				}
				fos = append(fos, fo{rgft, o})
			}
		}
		for _, x := range fos {
			ft, o := x.ft, x.o
			if !wanted(o.Tags) {
				continue
			}
			if *only != "" && !strings.Contains(o.Name, *only) {
				continue
			}
			fr.Obligations++
			r := &OblResult{Fn: key, Name: o.Name, Kind: o.Kind, Tags: o.Tags, Src: o.Src, Pos: o.Pos, ExpectSat: o.ExpectSat, Abstracted: o.Abstracted}
			out.Obligations = append(out.Obligations, r)
			if o.Kind == "shape" {
				r.Status = "shape"
				continue
			}
			jobs_ = append(jobs_, &job{ft, o, r})
		}
		out.Functions = append(out.Functions, fr)
	}
	// lemmas
	for _, lm := range e.contracts.Lemmas {
		if !wanted(lm.Tags) || (*fnFilter != "" && !strings.Contains("lemma:"+lm.Name, *fnFilter)) {
			continue
		}
		ft, o := e.lemmaObligation(lm)
		r := &OblResult{Fn: "lemma", Name: o.Name, Kind: o.Kind, Tags: o.Tags, Src: o.Src, Pos: o.Pos}
		out.Obligations = append(out.Obligations, r)
		if o.Kind == "shape" {
			r.Status = "shape"
			continue
		}
		jobs_ = append(jobs_, &job{ft, o, r})
	}
	// wire-type shapes: the field list of a struct is exactly the one the contract pins
	for _, ss := range e.contracts.Structs {
		if !wanted(ss.Tags) || *fnFilter != "" && !strings.Contains("struct:"+ss.Type, *fnFilter) {
			continue
		}
		r := &OblResult{Fn: "struct", Name: "shape:struct " + ss.Type, Kind: "static", Tags: ss.Tags, Src: "fields of " + ss.Type + " are exactly: " + strings.Join(ss.Fields, " "),
			Pos: fmt.Sprintf("%s:%d", ss.File, ss.Line), Solver: "go/types"}
		got, err := e.structFields(ss)
		switch {
		case err != nil:
			r.Status, r.Src = "missing", r.Src+" ("+err.Error()+")"
		case strings.Join(got, " ") == strings.Join(ss.Fields, " "):
			r.Status, r.OK = "unsat", true
		default:
			r.Status, r.Src = "sat", r.Src+"; the type has: "+strings.Join(got, " ")
		}
		out.Obligations = append(out.Obligations, r)
	}
	if *namesOut != "" {
		data, _ := json.MarshalIndent(e.recNames, "", " ")
		os.WriteFile(*namesOut, data, 0644)
		fmt.Printf("govc: wrote %d functions to %s\n", len(e.recNames), *namesOut)
		return
	}
	// write queries and solve
	var wg sync.WaitGroup
	sem := make(chan struct{}, *jobs)
	for i, j := range jobs_ {
		file := filepath.Join(*outDir, fmt.Sprintf("q%04d.smt2", i))
		q := j.ft.Query(j.o)
		os.WriteFile(file, []byte(q), 0644)
		j.r.Query = file
		if *noSolve {
			continue
		}
		wg.Add(1)
		sem <- struct{}{}
		go func(j *job, file string) {
			defer wg.Done()
			defer func() { <-sem }()
			to := *timeout
			var sr *SolveResult
			if j.o.ExpectSat {
				sr = Probe(file, *probeT)
			} else {
				if isFast(j.r.Fn, j.r.Name) {
					to = 3
				}
				sr = Solve(file, to, true)
			}
			j.r.Status, j.r.Solver, j.r.TimeS, j.r.Model, j.r.Outputs = sr.Status, sr.Solver, sr.TimeS, sr.Model, sr.Outputs
			if sr.Status == "error" {
				j.r.Kind = "engine"
				j.r.OK = false
			} else if j.o.ExpectSat {
				j.r.OK = sr.Status != "unsat"
			} else {
				j.r.OK = sr.Status == "unsat"
			}
		}(j, file)
	}
	wg.Wait()
	out.WallS = time.Since(t0).Seconds()
	writeOut(*outDir, out)
	nfail := 0
	for _, r := range out.Obligations {
		if !r.OK {
			nfail++
			fmt.Printf("FAIL %-9s %s :: %s  [%s] %s\n", r.Status, r.Fn, r.Name, strings.Join(r.Tags, ","), r.Src)
		}
	}
	fmt.Printf("govc: %d functions, %d obligations, %d not ok, load %.1fs, total %.1fs\n", len(out.Functions), len(out.Obligations), nfail, out.LoadS, out.WallS)
}

func writeOut(dir string, out *Output) {
	b, _ := json.MarshalIndent(out, "", " ")
	os.WriteFile(filepath.Join(dir, "results.json"), b, 0644)
}

var _ = ssa.BuilderMode(0)
