package main

import "fmt"

// lemmaObligation turns a prelude-level lemma into a query: the lemma body
// must be valid under the prelude axioms alone.
func (e *Engine) lemmaObligation(lm *Lemma) (*FT, *Obligation) {
	ft := e.newFT(nil, nil)
	ft.entrySnapshot = State{}
	env := &CEnv{ft: ft, vars: map[string]*CV{}, cur: State{}, old: State{}}
	expr := lm.Expr
	// skolemise the outer universal quantifier so that spec functions applied
	// to the lemma's variables can be unfolded
	for {
		q, ok := expr.(*EQuant)
		if !ok || !q.Forall {
			break
		}
		for _, v := range q.Vars {
			so := v[1]
			if so == "" {
				so = "Int"
			}
			c := ft.fresh("sk."+v[0], so)
			env.vars[v[0]] = &CV{T: c, Sort: so}
		}
		expr = q.Body
	}
	g, err := env.EvalBool(expr)
	if err != nil {
		return ft, &Obligation{Name: "shape:lemma " + lm.Name, Kind: "shape", Tags: lm.Tags, Guard: tTrue, Goal: tFalse,
			Src: fmt.Sprintf("lemma cannot be resolved: %v", err), Fn: "lemma", Pos: fmt.Sprintf("%s:%d", lm.File, lm.Line)}
	}
	return ft, &Obligation{Name: "lemma:" + lm.Name, Kind: "lemma", Tags: lm.Tags, Guard: tTrue, Goal: g, Src: lm.Src, Fn: "lemma",
		Pos: fmt.Sprintf("%s:%d", lm.File, lm.Line)}
}
