package main

import "fmt"

// lemmaObligation turns a prelude-level lemma into a query: the lemma body
// must be valid under the prelude axioms alone.
func (e *Engine) lemmaObligation(lm *Lemma) (*FT, *Obligation) {
	ft := e.newFT(nil, nil)
	ft.entrySnapshot = State{}
	env := &CEnv{ft: ft, vars: map[string]*CV{}, cur: State{}, old: State{}}
	g, err := env.EvalBool(lm.Expr)
	if err != nil {
		return ft, &Obligation{Name: "shape:lemma " + lm.Name, Kind: "shape", Tags: lm.Tags, Guard: tTrue, Goal: tFalse,
			Src: fmt.Sprintf("lemma cannot be resolved: %v", err), Fn: "lemma", Pos: fmt.Sprintf("%s:%d", lm.File, lm.Line)}
	}
	return ft, &Obligation{Name: "lemma:" + lm.Name, Kind: "lemma", Tags: lm.Tags, Guard: tTrue, Goal: g, Src: lm.Src, Fn: "lemma",
		Pos: fmt.Sprintf("%s:%d", lm.File, lm.Line)}
}
