package main

import (
	"fmt"
	"go/constant"
	"go/token"
	"go/types"
	"sort"
	"strings"

	"golang.org/x/tools/go/ssa"
)

// ---------------------------------------------------------------------------
// Values, addresses, state

// Addr is a symbolic address: cell `Base` of region `Region`, then a path of
// field selections / array indexings inside the value stored there.
type Addr struct {
	Region   string     // "H.<sort>" or "HS.<sort>" (slice/array backing, root value is (Array Int sort))
	RootSort string     // sort of the cell value stored in the region
	RootType types.Type // Go type of the root cell value (nil when unknown, e.g. array backing)
	Base     *T
	BaseVal  ssa.Value // SSA value whose term is Base (nil if none)
	Path     []PStep
	Fresh    bool // base is a fresh allocation of the current activation
}

type PStep struct {
	Field string // field name, or "" for index
	Index *T
	Sort  string     // sort of the value after this step
	Type  types.Type // Go type after this step
}

type Val struct {
	T     *T
	Type  types.Type
	Addr  *Addr // non-nil for pointer values with a known symbolic address
	Tuple []*Val
	Clos  *Closure
}

type Closure struct {
	Fn       *ssa.Function
	Bindings []*Val
}

type State map[string]*T

func (s State) clone() State {
	n := make(State, len(s))
	for k, v := range s {
		n[k] = v
	}
	return n
}

type Obligation struct {
	Name       string
	Kind       string
	Tags       []string
	Guard      *T
	Goal       *T
	Src        string
	Pos        string
	Fn         string
	ExpectSat  bool            // vacuity probe: the query must NOT be unsat
	Extra      []*T            // additional assumptions local to this obligation
	body       *Body           // body the obligation is located in
	blk        *ssa.BasicBlock // block the obligation is located in
	loopRole   *Loop           // the loop whose invariant this obligation establishes/preserves
	nfacts     int             // number of facts that existed when the obligation was generated
	Abstracted bool
}

// FT is the translation of one function under verification.
type FT struct {
	e             *Engine
	fn            *ssa.Function
	con           *FnContract
	decls         []string
	declared      map[string]bool
	facts         []*T
	obls          []*Obligation
	strLits       map[string]string
	strOrder      []string
	nfresh        int
	abstractions  map[string]int
	trusted       map[string]bool
	collect       bool                 // pass 1: only collect loop write sets
	retIDs        map[token.Pos]string // stable names of return statements
	orphanKeys    map[string]bool      // range keys of invariants that match no loop of the function itself (a loop moved into a helper)
	adoptFn       *ssa.Function        // helper being inlined for adoption
	adoptedBodies map[*Body]bool       // inlined helpers whose loops take the function's orphan invariants
	rg            bool                 // rely/guarantee tier: other requests act between two store/Lightning calls
	loopWrites    map[*ssa.BasicBlock]map[string][]writeRec
	usedFns       map[string]bool
	entry         State
	wantTags      map[string]bool
	counters      map[string]int
	retInfos      []*retInfo
	failed        string
	allocRefs     []*T
	nonNil        map[string]bool
	mapEnums      []*mapIter
	usedSpec      map[string]bool
	globalsUsed   map[string]bool
	unconstrained map[string]bool
	callSiteHits  map[*Clause]int
	paramCVs      map[string]*CV
	entrySnapshot State
	top           *Body
	exitEnv       *CEnv
	invHit        map[*Clause]bool
	allTagsC      []string
	namedLits     map[string]string
	timeless      map[int]bool    // facts about the entry state / constants: usable by every obligation
	invFacts      []invFact       // loop-invariant assumptions (excluded from obligations that must not lean on them)
	refSources    map[string]bool // region|selector path of references that contracts dereference
	nq            int
}

// invFact marks facts[idx] as the assumption of loop lp's invariant at its head.
type invFact struct {
	idx  int
	lp   *Loop
	body *Body
}

type writeRec struct {
	base ssa.Value
	ok   bool // base is a usable SSA value
}

type retInfo struct {
	reach   *T
	state   State
	results []*Val
	pos     token.Pos
	blockIx int
}

func (ft *FT) fresh(prefix, sort string) *T {
	ft.nfresh++
	name := fmt.Sprintf("%s!%d", symSafe(prefix), ft.nfresh)
	ft.declare(name, sort)
	return L(name)
}

func (ft *FT) declare(name, sort string) {
	if ft.declared[name] {
		return
	}
	ft.declared[name] = true
	ft.decls = append(ft.decls, fmt.Sprintf("(declare-const %s %s)", name, sort))
}

func (ft *FT) fact(t *T) {
	if t == nil || isTrue(t) {
		return
	}
	ft.facts = append(ft.facts, t)
}

// axiom records a fact that does not depend on the program point (entry state,
// constants, immutable globals): every obligation may use it, whenever it was
// first needed.
func (ft *FT) axiom(t *T) {
	if t == nil || isTrue(t) {
		return
	}
	if ft.timeless == nil {
		ft.timeless = map[int]bool{}
	}
	ft.timeless[len(ft.facts)] = true
	ft.facts = append(ft.facts, t)
}

func (ft *FT) abstraction(what string) {
	ft.abstractions[what]++
}

func (ft *FT) count(k string) int {
	ft.counters[k]++
	return ft.counters[k]
}

func (ft *FT) pos(p token.Pos) string {
	if !p.IsValid() {
		return ""
	}
	pp := ft.e.fset.Position(p)
	return fmt.Sprintf("%s:%d", strings.TrimPrefix(pp.Filename, "/repo/"), pp.Line)
}

func (ft *FT) strLit(s string) *T {
	if s == "" {
		return L("str.empty")
	}
	if n, ok := ft.e.prelude.StrLits[s]; ok {
		ft.namedLits[s] = n
		return L(n)
	}
	if n, ok := ft.strLits[s]; ok {
		return L(n)
	}
	n := fmt.Sprintf("str!%d", len(ft.strLits))
	ft.strLits[s] = n
	ft.strOrder = append(ft.strOrder, s)
	return L(n)
}

// region returns the current term of a region in a state, creating the entry
// version lazily.
func (ft *FT) region(st State, name string) *T {
	if t, ok := st[name]; ok {
		return t
	}
	return ft.entryRegion(name)
}

func (ft *FT) entryRegion(name string) *T {
	if t, ok := ft.entry[name]; ok {
		return t
	}
	sort := ft.regionSort(name)
	sym := symSafe(name) + "@0"
	ft.declare(sym, sort)
	t := L(sym)
	ft.entry[name] = t
	if name == "H.Bytes" {
		ft.axiom(Eq(Sel(t, L("nil")), L("bempty"))) // a nil []byte is empty
	}
	return t
}

func (ft *FT) regionSort(name string) string {
	if gs, ok := ft.e.prelude.Ghosts[name]; ok {
		return gs
	}
	switch {
	case strings.HasPrefix(name, "HS."):
		return "(Array Ref (Array Int " + strings.TrimPrefix(name, "HS.") + "))"
	case strings.HasPrefix(name, "H."):
		return "(Array Ref " + strings.TrimPrefix(name, "H.") + ")"
	case strings.HasPrefix(name, "MK."):
		return "(Array Ref (Array " + strings.TrimPrefix(name, "MK.") + " Bool))"
	case strings.HasPrefix(name, "MV."):
		kv := strings.TrimPrefix(name, "MV.")
		i := strings.Index(kv, "->")
		return "(Array Ref (Array " + kv[:i] + " " + kv[i+2:] + "))"
	case name == "MN":
		return "(Array Ref Int)"
	case strings.HasPrefix(name, "IT."):
		return "Int"
	}
	panic("unknown region " + name)
}

func (ft *FT) newRegionVersion(name string) *T {
	ft.nfresh++
	sym := fmt.Sprintf("%s@%d", symSafe(name), ft.nfresh)
	ft.declare(sym, ft.regionSort(name))
	if name == "H.Bytes" {
		ft.fact(Eq(Sel(L(sym), L("nil")), L("bempty"))) // nothing is ever stored at nil: a nil []byte stays empty
	}
	return L(sym)
}

// setRegion gives a region a new named version equal to term t.
func (ft *FT) setRegion(st State, name string, t *T) {
	v := ft.newRegionVersion(name)
	ft.fact(Eq(v, t))
	st[name] = v
}

func (ft *FT) havocRegion(st State, name string) {
	st[name] = ft.newRegionVersion(name)
}

// ---------------------------------------------------------------------------
// Body: translation of one SSA function body (the function itself or an
// inlined callee / closure).

type Body struct {
	ft        *FT
	fn        *ssa.Function
	prefix    string
	vals      map[ssa.Value]*Val
	reach     map[*ssa.BasicBlock]*T
	out       map[*ssa.BasicBlock]State
	edge      map[[2]int]*T
	loops     map[*ssa.BasicBlock]*Loop // by header
	inLoops   map[*ssa.BasicBlock][]*Loop
	outer     []*Loop // loops of the inlining context
	order     []*ssa.BasicBlock
	rets      []*retInfo
	defers    []*ssa.Defer
	freeVars  []*Val
	params    []*Val
	iterIdx   map[*ssa.Range]string // map range -> iteration counter region
	iterInfo  map[*ssa.Range]*mapIter
	depth     int
	curBlock  *ssa.BasicBlock
	parent    *Body
	curState  State
	callBlk   *ssa.BasicBlock // block of the parent body where this body was inlined
	presBlk   *ssa.BasicBlock // source block of the back edge whose preservation is being generated
	tupleRefs []*T            // Ref-sorted components of tuple values
}

type mapIter struct {
	keys         *T // (Array Int K) enumeration of keys
	n            *T
	m            *T
	ksort, vsort string
	kt, vt       types.Type
}

type Loop struct {
	Header  *ssa.BasicBlock
	Blocks  map[*ssa.BasicBlock]bool
	Back    []*ssa.BasicBlock // sources of back edges
	Body    *Body
	Ordinal int
	RangeOf string // source text of ranged operand, if a range loop
	IdxPhi  *ssa.Phi
}

func (ft *FT) newBody(fn *ssa.Function, prefix string, outer []*Loop, depth int) *Body {
	b := &Body{ft: ft, fn: fn, prefix: prefix, vals: map[ssa.Value]*Val{}, reach: map[*ssa.BasicBlock]*T{},
		out: map[*ssa.BasicBlock]State{}, edge: map[[2]int]*T{}, loops: map[*ssa.BasicBlock]*Loop{},
		inLoops: map[*ssa.BasicBlock][]*Loop{}, outer: outer, iterIdx: map[*ssa.Range]string{}, iterInfo: map[*ssa.Range]*mapIter{}, depth: depth}
	b.findLoops()
	return b
}

func (b *Body) findLoops() {
	fn := b.fn
	// back edges: P -> H with H dominating P
	for _, blk := range fn.Blocks {
		for _, s := range blk.Succs {
			if s.Dominates(blk) {
				lp := b.loops[s]
				if lp == nil {
					lp = &Loop{Header: s, Blocks: map[*ssa.BasicBlock]bool{s: true}, Body: b}
					b.loops[s] = lp
				}
				lp.Back = append(lp.Back, blk)
				// natural loop body
				stack := []*ssa.BasicBlock{blk}
				for len(stack) > 0 {
					x := stack[len(stack)-1]
					stack = stack[:len(stack)-1]
					if lp.Blocks[x] {
						continue
					}
					lp.Blocks[x] = true
					stack = append(stack, x.Preds...)
				}
			}
		}
	}
	// ordinals in block-index order
	var hs []*ssa.BasicBlock
	for h := range b.loops {
		hs = append(hs, h)
	}
	sort.Slice(hs, func(i, j int) bool { return hs[i].Index < hs[j].Index })
	for i, h := range hs {
		b.loops[h].Ordinal = i + 1
	}
	for _, blk := range fn.Blocks {
		for _, h := range hs {
			if b.loops[h].Blocks[blk] {
				b.inLoops[blk] = append(b.inLoops[blk], b.loops[h])
			}
		}
	}
	// topological order ignoring back edges (reverse postorder)
	seen := map[*ssa.BasicBlock]bool{}
	var post []*ssa.BasicBlock
	var dfs func(x *ssa.BasicBlock)
	dfs = func(x *ssa.BasicBlock) {
		seen[x] = true
		for _, s := range x.Succs {
			if s.Dominates(x) { // back edge
				continue
			}
			if !seen[s] {
				dfs(s)
			}
		}
		post = append(post, x)
	}
	if len(fn.Blocks) > 0 {
		dfs(fn.Blocks[0])
	}
	for i := len(post) - 1; i >= 0; i-- {
		b.order = append(b.order, post[i])
	}
}

func (b *Body) loopsOf(blk *ssa.BasicBlock) []*Loop {
	return append(append([]*Loop{}, b.outer...), b.inLoops[blk]...)
}

func (b *Body) name(v ssa.Value) string {
	return symSafe(b.prefix + v.Name())
}

// ---------------------------------------------------------------------------

func (ft *FT) sortOf(t types.Type) string { return ft.e.sorts.SortOf(t) }

// ptrRegion returns the region and cell sort for dereferencing a pointer/slice
// value of Go type t.
func (ft *FT) ptrRegion(t types.Type) (region, rootSort string, rootType types.Type, isSeq bool) {
	t = types.Unalias(t)
	switch u := t.Underlying().(type) {
	case *types.Pointer:
		el := u.Elem()
		if arr, ok := types.Unalias(el).Underlying().(*types.Array); ok && !isByte(arr.Elem()) {
			es := ft.sortOf(arr.Elem())
			return "HS." + es, "(Array Int " + es + ")", nil, true
		}
		s := ft.sortOf(el)
		return "H." + s, s, el, false
	case *types.Slice:
		if isByte(u.Elem()) {
			return "H.Bytes", "Bytes", nil, false
		}
		es := ft.sortOf(u.Elem())
		return "HS." + es, "(Array Int " + es + ")", nil, true
	}
	return "", "", nil, false
}

// addrOf returns the symbolic address a pointer value designates.
func (ft *FT) addrOf(v *Val) *Addr {
	if v.Addr != nil {
		return v.Addr
	}
	region, rs, rt, _ := ft.ptrRegion(v.Type)
	if region == "" {
		return nil
	}
	return &Addr{Region: region, RootSort: rs, RootType: rt, Base: v.T}
}

// loadPath reads the value at path inside root.
func (ft *FT) loadPath(root *T, rootSort string, path []PStep) *T {
	cur := root
	curSort := rootSort
	for _, st := range path {
		if st.Field != "" {
			f := ft.e.sorts.Field(curSort, st.Field)
			if f == nil {
				panic(fmt.Sprintf("no field %s in sort %s", st.Field, curSort))
			}
			cur = A(f.Sel, cur)
		} else if curSort == "Bytes" {
			cur = A("bat", cur, st.Index)
		} else {
			cur = Sel(cur, st.Index)
		}
		curSort = st.Sort
	}
	return cur
}

// storePath returns root with the value at path replaced by nv.
func (ft *FT) storePath(root *T, rootSort string, path []PStep, nv *T) *T {
	if len(path) == 0 {
		return nv
	}
	st := path[0]
	if st.Field != "" {
		f := ft.e.sorts.Field(rootSort, st.Field)
		inner := ft.storePath(A(f.Sel, root), st.Sort, path[1:], nv)
		return ft.e.sorts.UpdField(rootSort, root, st.Field, inner)
	}
	if rootSort == "Bytes" {
		return A("bset", root, st.Index, nv)
	}
	inner := ft.storePath(Sel(root, st.Index), st.Sort, path[1:], nv)
	return Sto(root, st.Index, inner)
}

func (ft *FT) load(st State, a *Addr) *T {
	cell := Sel(ft.region(st, a.Region), a.Base)
	return ft.loadPath(cell, a.RootSort, a.Path)
}

func (b *Body) store(st State, a *Addr, nv *T, blk *ssa.BasicBlock) {
	ft := b.ft
	reg := ft.region(st, a.Region)
	cell := Sel(reg, a.Base)
	ncell := ft.storePath(cell, a.RootSort, a.Path, nv)
	ft.setRegion(st, a.Region, Sto(reg, a.Base, ncell))
	b.recordWrite(blk, a.Region, a.BaseVal)
}

func (b *Body) recordWrite(blk *ssa.BasicBlock, region string, base ssa.Value) {
	ft := b.ft
	if !ft.collect {
		return
	}
	for _, lp := range b.loopsOf(blk) {
		inside := true // is base defined inside the loop?
		if base != nil && lp.Body == b {
			db := defBlock(base)
			inside = db != nil && lp.Blocks[db]
		}
		if base != nil && inside && freshBase(base) {
			// a write to an object allocated in this very iteration cannot
			// be observed through any reference that exists at the loop head
			continue
		}
		m := ft.loopWrites[lp.Header]
		if m == nil {
			m = map[string][]writeRec{}
			ft.loopWrites[lp.Header] = m
		}
		m[region] = append(m[region], writeRec{base: base, ok: base != nil && !inside})
	}
}

func defBlock(v ssa.Value) *ssa.BasicBlock {
	if in, ok := v.(ssa.Instruction); ok {
		return in.Block()
	}
	return nil
}

// ---------------------------------------------------------------------------
// Value lookup

func (b *Body) val(v ssa.Value) *Val {
	if x, ok := b.vals[v]; ok {
		return x
	}
	ft := b.ft
	switch c := v.(type) {
	case *ssa.Const:
		return ft.constVal(c)
	case *ssa.Global:
		gname := "g." + symSafe(typeName2(c.Pkg.Pkg)+"."+c.Name())
		ft.declare(gname, "Ref")
		ft.fact(Not(Eq(L(gname), L("nil"))))
		region, rs, rt, _ := ft.ptrRegion(c.Type())
		x := &Val{T: L(gname), Type: c.Type(), Addr: &Addr{Region: region, RootSort: rs, RootType: rt, Base: L(gname), BaseVal: c}}
		b.vals[v] = x
		return x
	case *ssa.Function:
		n := "fn." + symSafe(c.String())
		ft.declare(n, "Ref")
		x := &Val{T: L(n), Type: c.Type(), Clos: &Closure{Fn: c}}
		b.vals[v] = x
		return x
	case *ssa.Builtin:
		return &Val{T: L("nil"), Type: c.Type()}
	}
	// value not yet defined (e.g. defined in a block not yet visited): declare
	// a symbol for it so that terms stay well-formed.
	x := b.declVal(v)
	return x
}

func typeName2(p *types.Package) string {
	if p == nil {
		return "_"
	}
	if strings.HasPrefix(p.Path(), modulePath+"/") {
		return strings.TrimPrefix(p.Path(), modulePath+"/")
	}
	return p.Path()
}

func (b *Body) declVal(v ssa.Value) *Val {
	ft := b.ft
	t := v.Type()
	if tup, ok := t.(*types.Tuple); ok {
		x := &Val{Type: t}
		for i := 0; i < tup.Len(); i++ {
			n := fmt.Sprintf("%s.%d", b.name(v), i)
			so := ft.sortOf(tup.At(i).Type())
			ft.declare(n, so)
			ft.fact(ft.e.sorts.TypeFacts(L(n), tup.At(i).Type()))
			x.Tuple = append(x.Tuple, &Val{T: L(n), Type: tup.At(i).Type()})
			if so == "Ref" {
				b.tupleRefs = append(b.tupleRefs, L(n))
			}
		}
		b.vals[v] = x
		return x
	}
	n := b.name(v)
	ft.declare(n, ft.sortOf(t))
	ft.fact(ft.e.sorts.TypeFacts(L(n), t))
	x := &Val{T: L(n), Type: t}
	b.vals[v] = x
	return x
}

// define binds SSA value v to term t (through a named constant).
func (b *Body) define(v ssa.Value, t *T) *Val {
	x := b.declVal(v)
	b.ft.fact(Eq(x.T, t))
	return x
}

func (ft *FT) constVal(c *ssa.Const) *Val {
	t := c.Type()
	if c.Value == nil {
		return &Val{T: ft.e.sorts.Zero(t), Type: t}
	}
	switch c.Value.Kind() {
	case constant.Bool:
		if constant.BoolVal(c.Value) {
			return &Val{T: tTrue, Type: t}
		}
		return &Val{T: tFalse, Type: t}
	case constant.String:
		return &Val{T: ft.strLit(constant.StringVal(c.Value)), Type: t}
	case constant.Int:
		if ft.sortOf(t) == "Float" {
			return &Val{T: A("float.of.int", IntS(c.Value.ExactString())), Type: t}
		}
		return &Val{T: IntS(c.Value.ExactString()), Type: t}
	case constant.Float:
		if ft.sortOf(t) == "Int" {
			if iv := constant.ToInt(c.Value); iv.Kind() == constant.Int {
				return &Val{T: IntS(iv.ExactString()), Type: t}
			}
		}
		n := "float.c." + symSafe(c.Value.ExactString())
		if _, inPrelude := ft.e.prelude.Fns[n]; !inPrelude {
			ft.declare(n, "Float")
		}
		return &Val{T: L(n), Type: t}
	}
	return &Val{T: ft.fresh("const", ft.sortOf(t)), Type: t}
}

// constArray returns an array mapping every index to z.
func (ft *FT) constArray(idxSort, elemSort string, z *T) *T {
	if isValueTerm(z) {
		return A("(as const (Array "+idxSort+" "+elemSort+"))", z)
	}
	if idxSort == "Int" {
		ft.e.sorts.zeroArrays[elemSort] = z
		return L("zeroarr." + symSafe(elemSort))
	}
	return ft.fresh("constarr", "(Array "+idxSort+" "+elemSort+")")
}

// noteLocalName records the Go type of a local the contract of the function under
// verification names (for contracts/names.json).
func (ft *FT) noteLocalName(name string, t types.Type) {
	if t == nil || ft.fn == nil || ft.e.recNames == nil {
		return
	}
	for _, p := range ft.fn.Params {
		if p.Name() == name {
			return
		}
	}
	m := ft.e.recNames[ft.fn.String()]
	if m == nil {
		m = map[string]string{}
		ft.e.recNames[ft.fn.String()] = m
	}
	m[name] = types.TypeString(t, nil)
}
