package main

import (
	"fmt"
	"go/ast"
	"go/token"
	"go/types"
	"os"
	"path/filepath"
	"sort"
	"strings"

	"golang.org/x/tools/go/packages"
	"golang.org/x/tools/go/ssa"
	"golang.org/x/tools/go/ssa/ssautil"
)

type Engine struct {
	fset       *token.FileSet
	prog       *ssa.Program
	pkgs       []*packages.Package
	spkgs      []*ssa.Package
	sorts      *Sorts
	contracts  *ContractSet
	prelude    *Prelude
	fnByKey    map[string]*ssa.Function
	pkgByName  map[string]*types.Package
	pureKeys   map[string]bool
	purePfx    []string
	modCache   map[string][]string
	modBusy    map[string]bool
	mutGlobal  map[*ssa.Global]bool
	globalInit map[*ssa.Global][]globalInitFact
	names      map[string]map[string]string // committed: function -> contract-named local -> Go type (unchanged tree)
	recNames   map[string]map[string]string // recorded in this run (-names)
	repoDir    string
	ghostTypes []string
	perReturn  bool // debug: one post obligation per return statement
}

type globalInitFact struct {
	path []string
	val  *ssa.Const
}

func LoadEngine(repoDir string, patterns []string, contractDirs []string, preludePaths []string, overlay map[string][]byte) (*Engine, error) {
	e := &Engine{repoDir: repoDir, sorts: NewSorts(), fnByKey: map[string]*ssa.Function{}, pkgByName: map[string]*types.Package{},
		pureKeys: map[string]bool{}, modCache: map[string][]string{}, modBusy: map[string]bool{}, mutGlobal: map[*ssa.Global]bool{},
		globalInit: map[*ssa.Global][]globalInitFact{}}
	cfg := &packages.Config{Mode: packages.LoadAllSyntax, Dir: repoDir, BuildFlags: []string{"-tags=verif"}, Overlay: overlay,
		Env: goEnv()}
	pkgs, err := packages.Load(cfg, patterns...)
	if err != nil {
		return nil, err
	}
	nerr := 0
	packages.Visit(pkgs, nil, func(p *packages.Package) {
		for _, er := range p.Errors {
			if strings.HasPrefix(p.PkgPath, modulePath) {
				fmt.Fprintln(os.Stderr, "load error:", er)
				nerr++
			}
		}
	})
	if nerr > 0 {
		return nil, fmt.Errorf("%d package load errors", nerr)
	}
	e.pkgs = pkgs
	e.fset = pkgs[0].Fset
	prog, spkgs := ssautil.AllPackages(pkgs, ssa.InstantiateGenerics|ssa.GlobalDebug)
	for _, p := range spkgs {
		if p != nil && isRepoPkg(p) {
			p.Build()
		}
	}
	e.prog, e.spkgs = prog, spkgs
	for _, p := range spkgs {
		if p == nil {
			continue
		}
		if isRepoPkg(p) {
			if _, dup := e.pkgByName[p.Pkg.Name()]; !dup {
				e.pkgByName[p.Pkg.Name()] = p.Pkg
			}
		}
	}
	// standard-library packages before third-party ones
	for pass := 0; pass < 2; pass++ {
		for _, p := range prog.AllPackages() {
			first := p.Pkg.Path()
			if i := strings.Index(first, "/"); i >= 0 {
				first = first[:i]
			}
			isStd := !strings.Contains(first, ".")
			if (pass == 0) != isStd {
				continue
			}
			if _, ok := e.pkgByName[p.Pkg.Name()]; !ok {
				e.pkgByName[p.Pkg.Name()] = p.Pkg
			}
		}
	}
	for fn := range ssautil.AllFunctions(prog) {
		if fn.Pkg != nil && isRepoPkg(fn.Pkg) || fn.Parent() != nil {
			e.fnByKey[fn.String()] = fn
		}
	}
	// prelude and contracts
	e.prelude, err = LoadPrelude(preludePaths...)
	if err != nil {
		return nil, err
	}
	e.contracts = &ContractSet{Fns: map[string]*FnContract{}, Imports: map[string]string{}, Macros: map[string]*Macro{}, Implements: map[string]string{}}
	for _, p := range spkgs {
		if p != nil && isRepoPkg(p) {
			e.contracts.Imports[p.Pkg.Name()] = p.Pkg.Path()
		}
	}
	// library contracts first (they define imports), then repository contracts
	for _, d := range contractDirs {
		files, _ := filepath.Glob(filepath.Join(d, "*.gvc"))
		sort.Strings(files)
		for _, f := range files {
			if err := e.contracts.ParseContractFile(f, ""); err != nil {
				return nil, err
			}
		}
	}
	for _, p := range pkgs {
		if !strings.HasPrefix(p.PkgPath, modulePath) {
			continue
		}
		for _, gf := range p.GoFiles {
			if strings.HasSuffix(gf, "zz_contracts_verif.go") {
				// package names are resolved through the package's own imports
				saved := e.contracts.Imports
				local := map[string]string{}
				for k, v := range saved {
					local[k] = v
				}
				for _, imp := range p.Types.Imports() {
					local[imp.Name()] = imp.Path()
				}
				for path, ip := range p.Imports {
					local[ip.Name] = path
				}
				e.contracts.Imports = local
				err := e.contracts.ParseContractFile(gf, p.PkgPath)
				e.contracts.Imports = saved
				if err != nil {
					return nil, err
				}
			}
		}
	}
	freshCallee = func(key string) bool {
		c := e.contracts.Fns[key]
		return c != nil && c.Fresh
	}
	e.scan()
	// sorts of Go types the prelude mentions
	for _, gt := range e.prelude.GoTypes {
		i := strings.LastIndex(gt, ".")
		if i < 0 {
			continue
		}
		for _, p := range e.prog.AllPackages() {
			if p.Pkg.Path() == gt[:i] {
				if tn, ok := p.Pkg.Scope().Lookup(gt[i+1:]).(*types.TypeName); ok {
					e.sorts.SortOf(tn.Type())
				}
			}
		}
	}
	return e, nil
}

// scan pre-computes facts about the whole program: external struct types whose
// fields are accessed, mutable globals, constant initialisers of globals.
func (e *Engine) scan() {
	for _, fn := range e.fnByKey {
		for _, blk := range fn.Blocks {
			for _, in := range blk.Instrs {
				switch x := in.(type) {
				case *ssa.FieldAddr:
					if n, ok := types.Unalias(types.Unalias(x.X.Type()).Underlying().(*types.Pointer).Elem()).(*types.Named); ok && !isRepoType(n) {
						e.sorts.fieldAccessed[typeName(n)] = true
					}
				case *ssa.Field:
					if n, ok := types.Unalias(x.X.Type()).(*types.Named); ok && !isRepoType(n) {
						e.sorts.fieldAccessed[typeName(n)] = true
					}
				case *ssa.Store:
					g, path := rootGlobal(x.Addr)
					if g == nil {
						continue
					}
					if fn.Name() == "init" && fn.Pkg == g.Pkg {
						if c, ok := x.Val.(*ssa.Const); ok {
							e.globalInit[g] = append(e.globalInit[g], globalInitFact{path: path, val: c})
						}
					} else {
						e.mutGlobal[g] = true
					}
				}
			}
		}
	}
	// declare every named struct type of the repository packages up front so
	// that prelude modules can mention them
	for _, p := range e.spkgs {
		if p == nil || !isRepoPkg(p) {
			continue
		}
		sc := p.Pkg.Scope()
		for _, n := range sc.Names() {
			if tn, ok := sc.Lookup(n).(*types.TypeName); ok {
				if _, ok := tn.Type().Underlying().(*types.Struct); ok {
					if nt, ok := tn.Type().(*types.Named); ok && nt.TypeParams().Len() == 0 {
						e.sorts.SortOf(tn.Type())
					}
				}
			}
		}
	}
}

func rootGlobal(v ssa.Value) (*ssa.Global, []string) {
	var path []string
	for {
		switch x := v.(type) {
		case *ssa.Global:
			// reverse path
			for i, j := 0, len(path)-1; i < j; i, j = i+1, j-1 {
				path[i], path[j] = path[j], path[i]
			}
			return x, path
		case *ssa.FieldAddr:
			st := types.Unalias(types.Unalias(x.X.Type()).Underlying().(*types.Pointer).Elem()).Underlying().(*types.Struct)
			path = append(path, st.Field(x.Field).Name())
			v = x.X
		default:
			return nil, nil
		}
	}
}

func (e *Engine) immutableGlobal(g *ssa.Global) bool {
	if e.mutGlobal[g] {
		return false
	}
	return true
}

func (e *Engine) globalOf(v *types.Var) *ssa.Global {
	if v.Pkg() == nil {
		return nil
	}
	p := e.prog.Package(v.Pkg())
	if p == nil {
		return nil
	}
	g, _ := p.Members[v.Name()].(*ssa.Global)
	return g
}

// globalConst returns the constant standing for the (never reassigned) value
// of a package-level variable, with the facts its initialiser gives.
func (e *Engine) globalConst(ft *FT, g *ssa.Global) *T {
	name := "gval." + symSafe(typeName2(g.Pkg.Pkg)+"."+g.Name())
	pt := types.Unalias(g.Type()).Underlying().(*types.Pointer).Elem()
	so := ft.sortOf(pt)
	if !ft.declared[name] {
		ft.declare(name, so)
		ft.fact(e.sorts.TypeFacts(L(name), pt))
		ft.globalsUsed[name] = true
		for _, f := range e.globalInit[g] {
			cur := L(name)
			curSort := so
			ok := true
			for _, p := range f.path {
				sf := e.sorts.Field(curSort, p)
				if sf == nil {
					ok = false
					break
				}
				cur = A(sf.Sel, cur)
				curSort = sf.Sort
			}
			if ok {
				ft.axiom(Eq(cur, ft.constVal(f.val).T))
			}
		}
		if so == "Iface" {
			// error sentinels created by errors.New / fmt.Errorf are non-nil
			ft.axiom(Not(Eq(L(name), L("nil.Iface"))))
		}
	}
	return L(name)
}

func (e *Engine) knownPure(key string) bool {
	if e.pureKeys[key] {
		return true
	}
	for _, p := range e.purePfx {
		if strings.HasPrefix(key, p) {
			return true
		}
	}
	return false
}

func (e *Engine) loadPureList(path string) error {
	data, err := os.ReadFile(path)
	if err != nil {
		return err
	}
	for _, ln := range strings.Split(string(data), "\n") {
		ln = strings.TrimSpace(ln)
		if ln == "" || strings.HasPrefix(ln, "#") {
			continue
		}
		if strings.HasSuffix(ln, "*") {
			e.purePfx = append(e.purePfx, strings.TrimSuffix(ln, "*"))
		} else {
			e.pureKeys[ln] = true
		}
	}
	return nil
}

var ghostCarriers = []string{
	"github.com/elnosh/gonuts/mint/storage.MintDB",
	"github.com/elnosh/gonuts/mint/lightning.Client",
	"github.com/elnosh/gonuts/mint.Mint",
	"github.com/elnosh/gonuts/wallet/storage.WalletDB",
	"github.com/elnosh/gonuts/wallet.Wallet",
	"net/http.ResponseWriter",
}

func (e *Engine) carriesGhostIface(t types.Type) bool {
	if t == nil {
		return false
	}
	t = types.Unalias(t)
	if p, ok := t.Underlying().(*types.Pointer); ok {
		t = types.Unalias(p.Elem())
	}
	n, ok := t.(*types.Named)
	if !ok || n.Obj().Pkg() == nil {
		return false
	}
	full := n.Obj().Pkg().Path() + "." + n.Obj().Name()
	for _, g := range ghostCarriers {
		if g == full {
			return true
		}
	}
	return false
}

// rangeText returns the source text of the ranged operand when loop lp (by
// ordinal) is a `for ... range X` statement.
func (e *Engine) rangeText(fn *ssa.Function, lp *Loop) string {
	syn := fn.Syntax()
	if syn == nil {
		return ""
	}
	var body *ast.BlockStmt
	switch s := syn.(type) {
	case *ast.FuncDecl:
		body = s.Body
	case *ast.FuncLit:
		body = s.Body
	}
	if body == nil {
		return ""
	}
	var loops []ast.Stmt
	ast.Inspect(body, func(n ast.Node) bool {
		switch s := n.(type) {
		case *ast.FuncLit:
			return false
		case *ast.RangeStmt:
			loops = append(loops, s)
		case *ast.ForStmt:
			loops = append(loops, s)
		}
		return true
	})
	if len(loops) != len(lp.Body.loops) || lp.Ordinal-1 >= len(loops) {
		return ""
	}
	if rs, ok := loops[lp.Ordinal-1].(*ast.RangeStmt); ok {
		return types.ExprString(rs.X)
	}
	// `for i := 0; i < len(X); i++` walks X like `for i := range X`: the same loop key
	// (an invariant keyed `range(X)` survives a conversion between the two spellings)
	if fs, ok := loops[lp.Ordinal-1].(*ast.ForStmt); ok && fs.Init != nil && fs.Cond != nil && fs.Post != nil {
		as, ok1 := fs.Init.(*ast.AssignStmt)
		be, ok2 := fs.Cond.(*ast.BinaryExpr)
		inc, ok3 := fs.Post.(*ast.IncDecStmt)
		if ok1 && ok2 && ok3 && len(as.Lhs) == 1 && len(as.Rhs) == 1 && be.Op == token.LSS && inc.Tok == token.INC {
			iv, okI := as.Lhs[0].(*ast.Ident)
			zero, okZ := as.Rhs[0].(*ast.BasicLit)
			cv, okC := be.X.(*ast.Ident)
			call, okL := be.Y.(*ast.CallExpr)
			pv, okP := inc.X.(*ast.Ident)
			if okI && okZ && okC && okL && okP && zero.Value == "0" && cv.Name == iv.Name && pv.Name == iv.Name && iv.Name == "i" {
				if fn, isId := call.Fun.(*ast.Ident); isId && fn.Name == "len" && len(call.Args) == 1 {
					return types.ExprString(call.Args[0])
				}
			}
		}
	}
	return ""
}

// ---------------------------------------------------------------------------
// Modifies sets

// modSet returns the regions (ghost variables and type-wide heap regions) a
// callee may modify from the point of view of its caller.
func (e *Engine) modSet(key string, con *FnContract) []string {
	if con != nil && (con.Trusted || con.NoBody || len(con.Modifies) > 0 || con.Pure) {
		return con.Modifies
	}
	if m, ok := e.modCache[key]; ok {
		return m
	}
	fn := e.fnByKey[key]
	if fn == nil || fn.Blocks == nil {
		if con != nil {
			return con.Modifies
		}
		return nil
	}
	if e.modBusy[key] {
		return nil
	}
	e.modBusy[key] = true
	set := map[string]bool{}
	e.collectMods(fn, set)
	delete(e.modBusy, key)
	out := sortedKeys(set)
	e.modCache[key] = out
	return out
}

var freshCallee func(key string) bool

func freshBase(v ssa.Value) bool { return freshBaseV(v, 0, map[*ssa.Phi]bool{}) }

func freshBaseD(v ssa.Value, depth int) bool { return freshBaseV(v, depth, map[*ssa.Phi]bool{}) }

// freshBaseV: phis on a cycle (loop-carried slices that are only ever re-assigned
// from appends/allocations) are fresh when every edge from outside the cycle is.
func freshBaseV(v ssa.Value, depth int, seen map[*ssa.Phi]bool) bool {
	if depth > 12 {
		return false
	}
	for {
		switch x := v.(type) {
		case *ssa.Phi:
			if seen[x] {
				return true
			}
			seen[x] = true
			for _, e := range x.Edges {
				if c, ok := e.(*ssa.Const); ok && c.Value == nil {
					continue // nil
				}
				if !freshBaseV(e, depth+1, seen) {
					return false
				}
			}
			return true
		case *ssa.Extract:
			v = x.Tuple
		case *ssa.Alloc, *ssa.MakeSlice, *ssa.MakeMap, *ssa.Convert:
			return true
		case *ssa.FieldAddr:
			v = x.X
		case *ssa.IndexAddr:
			v = x.X
		case *ssa.Slice:
			v = x.X
		case *ssa.Call:
			if b, ok := x.Call.Value.(*ssa.Builtin); ok && b.Name() == "append" {
				return true
			}
			// results of callees whose contract says `fresh`
			if key, _, _ := calleeKey(&x.Call); key != "" && freshCallee != nil && freshCallee(key) {
				return true
			}
			return false
		default:
			return false
		}
	}
}

func (e *Engine) collectMods(fn *ssa.Function, set map[string]bool) {
	tmp := &FT{e: e}
	addPtr := func(t types.Type) {
		region, _, _, _ := tmp.ptrRegion(t)
		if region != "" {
			set[region] = true
		}
	}
	var doCall func(c *ssa.CallCommon)
	doCall = func(c *ssa.CallCommon) {
		key, callee, _ := calleeKey(c)
		if strings.HasPrefix(key, "builtin.") {
			if key == "builtin.copy" && !freshBase(c.Args[0]) {
				addPtr(c.Args[0].Type())
			}
			if key == "builtin.delete" && !freshBase(c.Args[0]) {
				mt := types.Unalias(c.Args[0].Type()).Underlying().(*types.Map)
				set["MK."+e.sorts.SortOf(mt.Key())] = true
				set["MN"] = true
			}
			return
		}
		if callee == nil {
			if mc, ok := c.Value.(*ssa.MakeClosure); ok {
				callee = mc.Fn.(*ssa.Function)
			}
		}
		con := e.contracts.Fns[key]
		if con != nil && (con.Trusted || con.NoBody || len(con.Modifies) > 0 || con.Pure) {
			_, _, sig := calleeKey(c)
			names := formalNames(con, sig, c.IsInvoke())
			for _, m := range con.Modifies {
				if strings.HasPrefix(m, "*") || strings.HasPrefix(m, "[]") {
					pn := strings.TrimPrefix(strings.TrimPrefix(m, "*"), "[]")
					for i, n := range names {
						off := 0
						if c.IsInvoke() {
							off = 1
						}
						if n == pn && i-off >= 0 && i-off < len(c.Args) {
							a := c.Args[i-off]
							if !freshBase(a) {
								root := a
								for {
									if fa, ok := root.(*ssa.FieldAddr); ok {
										root = fa.X
										continue
									}
									break
								}
								addPtr(root.Type())
							}
						}
					}
					continue
				}
				set[m] = true
			}
			return
		}
		if e.knownPure(key) {
			return
		}
		if callee != nil && callee.Blocks != nil && (isRepoPkg(callee.Pkg) || callee.Parent() != nil) {
			for _, m := range e.modSet(callee.String(), con) {
				set[m] = true
			}
			return
		}
		// unknown callee: everything reachable from non-fresh pointer-like arguments
		for ai, a := range c.Args {
			// natively modelled decoders only write through their target argument
			if (key == "encoding/json.Unmarshal" || key == "errors.As") && ai == 0 {
				continue
			}
			src := a
			if mi, ok := a.(*ssa.MakeInterface); ok {
				src = mi.X
			}
			if freshBase(src) {
				continue
			}
			switch u := types.Unalias(src.Type()).Underlying().(type) {
			case *types.Pointer, *types.Slice:
				addPtr(src.Type())
				_ = u
			case *types.Map:
				set["MK."+e.sorts.SortOf(u.Key())] = true
				set["MV."+e.sorts.SortOf(u.Key())+"->"+e.sorts.SortOf(u.Elem())] = true
				set["MN"] = true
			}
			if e.carriesGhostIface(src.Type()) {
				for _, g := range e.prelude.GhostOrder {
					set[g] = true
				}
			}
		}
		if c.IsInvoke() && e.carriesGhostIface(c.Value.Type()) {
			for _, g := range e.prelude.GhostOrder {
				set[g] = true
			}
		}
	}
	for _, blk := range fn.Blocks {
		for _, in := range blk.Instrs {
			switch x := in.(type) {
			case *ssa.Store:
				if !freshBase(x.Addr) {
					if _, isG := x.Addr.(*ssa.Global); isG {
						continue
					}
					// region by the root pointer type
					root := x.Addr
					for {
						if fa, ok := root.(*ssa.FieldAddr); ok {
							root = fa.X
							continue
						}
						if ia, ok := root.(*ssa.IndexAddr); ok {
							root = ia.X
							continue
						}
						break
					}
					addPtr(root.Type())
				}
			case *ssa.MapUpdate:
				if !freshBase(x.Map) {
					mt := types.Unalias(x.Map.Type()).Underlying().(*types.Map)
					set["MK."+e.sorts.SortOf(mt.Key())] = true
					set["MV."+e.sorts.SortOf(mt.Key())+"->"+e.sorts.SortOf(mt.Elem())] = true
					set["MN"] = true
				}
			case *ssa.Call:
				doCall(&x.Call)
			case *ssa.Defer:
				doCall(&x.Call)
			case *ssa.Go:
				// spawned activation: not part of the sequential effect
			case *ssa.MakeClosure:
				// closure bodies are accounted for when called
			}
		}
	}
}

// goEnv is the environment for `go list` in /repo: module mode, no network,
// automatic switch to the cached toolchain go.mod asks for.
func goEnv() []string {
	var env []string
	for _, kv := range os.Environ() {
		k := kv
		if i := strings.Index(kv, "="); i >= 0 {
			k = kv[:i]
		}
		switch k {
		case "GOFLAGS", "GOTOOLCHAIN", "GOSUMDB", "GOPROXY", "GONOSUMDB", "GONOSUMCHECK":
			continue
		}
		env = append(env, kv)
	}
	return append(env, "GOFLAGS=-mod=mod", "GOPROXY=off", "GOTOOLCHAIN=auto")
}

// durable reports whether a callee has a durable effect (modifies a ghost
// variable of the stores or of the Lightning backend other than the fault
// counters and the recorded answers).
func (e *Engine) durable(key string, con *FnContract) bool {
	for _, m := range e.modSet(key, con) {
		if _, isGhost := e.prelude.Ghosts[m]; !isGhost {
			continue
		}
		switch m {
		case "db.faults", "ln.qfaults", "ln.st", "ln.sterr", "ln.nst", "clk.now", "hvs.last", "hvs.calls", "hvs.fails":
			continue
		}
		return true
	}
	return false
}

// structFields resolves `pkg.Type` through the imports of the contract file and
// returns its field names in declaration order (embedded fields by type name).
func (e *Engine) structFields(ss *StructShape) ([]string, error) {
	i := strings.LastIndex(ss.Type, ".")
	if i < 0 {
		return nil, fmt.Errorf("struct type must be package qualified")
	}
	pkgName, typeName := ss.Type[:i], ss.Type[i+1:]
	path := ""
	for _, p := range e.pkgs {
		if p.PkgPath == ss.Pkg {
			if p.Types.Name() == pkgName {
				path = p.PkgPath
			}
			for ipath, ip := range p.Imports {
				if ip.Name == pkgName {
					path = ipath
				}
			}
		}
	}
	if path == "" {
		path = e.contracts.Imports[pkgName]
	}
	for _, sp := range e.prog.AllPackages() {
		if sp.Pkg.Path() != path {
			continue
		}
		obj, ok := sp.Pkg.Scope().Lookup(typeName).(*types.TypeName)
		if !ok {
			break
		}
		st, ok := obj.Type().Underlying().(*types.Struct)
		if !ok {
			return nil, fmt.Errorf("%s is not a struct", ss.Type)
		}
		var out []string
		for k := 0; k < st.NumFields(); k++ {
			out = append(out, st.Field(k).Name())
		}
		return out, nil
	}
	return nil, fmt.Errorf("type %s not found", ss.Type)
}

// atomicAction: a call to a method of the store or Lightning interfaces - one
// atomic step as far as the rely/guarantee tier is concerned.
func (e *Engine) atomicAction(key string) bool {
	return strings.HasPrefix(key, "("+modulePath+"/mint/storage.MintDB).") || strings.HasPrefix(key, "("+modulePath+"/mint/lightning.Client).")
}

// touchesStore: the callee (transitively) performs atomic actions.
func (e *Engine) touchesStore(key string, con *FnContract) bool {
	for _, m := range e.modSet(key, con) {
		if strings.HasPrefix(m, "db.") || strings.HasPrefix(m, "ln.") {
			return true
		}
	}
	return false
}

func (e *Engine) pkgOf(path string) *types.Package {
	for _, p := range e.prog.AllPackages() {
		if p.Pkg.Path() == path {
			return p.Pkg
		}
	}
	return nil
}

// backendError: the SSA value is (an interface wrapping of) an error result of
// a store / Lightning call.
func (e *Engine) backendError(v ssa.Value, depth int) bool {
	if depth > 4 {
		return false
	}
	switch x := v.(type) {
	case *ssa.MakeInterface:
		return e.backendError(x.X, depth+1)
	case *ssa.ChangeInterface:
		return e.backendError(x.X, depth+1)
	case *ssa.Extract:
		if c, ok := x.Tuple.(*ssa.Call); ok {
			key, _, _ := calleeKey(&c.Call)
			return e.atomicAction(key)
		}
	case *ssa.Call:
		key, _, _ := calleeKey(&x.Call)
		return e.atomicAction(key)
	case *ssa.Phi:
		for _, ed := range x.Edges {
			if e.backendError(ed, depth+1) {
				return true
			}
		}
	}
	return false
}

// oldParams: the parameter names (receiver first) the function had on the unchanged tree.
func (e *Engine) oldParams(fnKey string) []string {
	if e.names == nil {
		return nil
	}
	v, ok := e.names[fnKey]["$params"]
	if !ok {
		return nil
	}
	return strings.Split(v, ",")
}
