package main

import (
	"fmt"
	"sort"
	"strings"
)

// T is an SMT-LIB term: a leaf symbol/literal when Args == nil, otherwise an
// application (Op Args...). Quantifiers and lets are built with the helper
// constructors below and are printed structurally.
type T struct {
	Op   string
	Args []*T
	// quantifier binder: Op is "forall"/"exists", Bind holds (name, sort) pairs,
	// Args[0] is the body, Pats optional patterns.
	Bind [][2]string
	Pats [][]*T
}

func L(s string) *T { return &T{Op: s} }

func A(op string, args ...*T) *T {
	if len(args) == 0 {
		return &T{Op: op}
	}
	return &T{Op: op, Args: args}
}

func Int(n int64) *T {
	if n < 0 {
		return A("-", L(fmt.Sprint(-n)))
	}
	return L(fmt.Sprint(n))
}

func IntS(s string) *T {
	if strings.HasPrefix(s, "-") {
		return A("-", L(s[1:]))
	}
	return L(s)
}

var (
	tTrue  = L("true")
	tFalse = L("false")
)

func isTrue(t *T) bool  { return t.Args == nil && t.Op == "true" && t.Bind == nil }
func isFalse(t *T) bool { return t.Args == nil && t.Op == "false" && t.Bind == nil }

func And(ts ...*T) *T {
	var out []*T
	for _, t := range ts {
		if t == nil || isTrue(t) {
			continue
		}
		if isFalse(t) {
			return tFalse
		}
		if t.Op == "and" && t.Bind == nil && t.Args != nil {
			out = append(out, t.Args...)
			continue
		}
		out = append(out, t)
	}
	switch len(out) {
	case 0:
		return tTrue
	case 1:
		return out[0]
	}
	return &T{Op: "and", Args: out}
}

func Or(ts ...*T) *T {
	var out []*T
	for _, t := range ts {
		if t == nil || isFalse(t) {
			continue
		}
		if isTrue(t) {
			return tTrue
		}
		out = append(out, t)
	}
	switch len(out) {
	case 0:
		return tFalse
	case 1:
		return out[0]
	}
	return &T{Op: "or", Args: out}
}

func Not(t *T) *T {
	if isTrue(t) {
		return tFalse
	}
	if isFalse(t) {
		return tTrue
	}
	if t.Op == "not" && len(t.Args) == 1 {
		return t.Args[0]
	}
	return A("not", t)
}

func Imp(a, b *T) *T {
	if isTrue(a) {
		return b
	}
	if isFalse(a) || isTrue(b) {
		return tTrue
	}
	return A("=>", a, b)
}

func Eq(a, b *T) *T { return A("=", a, b) }

func Ite(c, a, b *T) *T {
	if isTrue(c) {
		return a
	}
	if isFalse(c) {
		return b
	}
	return A("ite", c, a, b)
}

func Sel(a, i *T) *T    { return A("select", a, i) }
func Sto(a, i, v *T) *T { return A("store", a, i, v) }
func Forall(b [][2]string, body *T, pats ...[]*T) *T {
	if len(b) == 0 {
		return body
	}
	return &T{Op: "forall", Bind: b, Args: []*T{body}, Pats: pats}
}
func Exists(b [][2]string, body *T) *T {
	if len(b) == 0 {
		return body
	}
	return &T{Op: "exists", Bind: b, Args: []*T{body}}
}

func (t *T) String() string {
	var sb strings.Builder
	t.write(&sb)
	return sb.String()
}

func (t *T) write(sb *strings.Builder) {
	if t.Bind != nil {
		sb.WriteString("(")
		sb.WriteString(t.Op)
		sb.WriteString(" (")
		for _, b := range t.Bind {
			sb.WriteString("(" + b[0] + " " + b[1] + ")")
		}
		sb.WriteString(") ")
		if len(t.Pats) > 0 {
			sb.WriteString("(! ")
			t.Args[0].write(sb)
			for _, p := range t.Pats {
				sb.WriteString(" :pattern (")
				for i, pt := range p {
					if i > 0 {
						sb.WriteString(" ")
					}
					pt.write(sb)
				}
				sb.WriteString(")")
			}
			sb.WriteString(")")
		} else {
			t.Args[0].write(sb)
		}
		sb.WriteString(")")
		return
	}
	if t.Args == nil {
		sb.WriteString(t.Op)
		return
	}
	sb.WriteString("(")
	sb.WriteString(t.Op)
	for _, a := range t.Args {
		sb.WriteString(" ")
		a.write(sb)
	}
	sb.WriteString(")")
}

// Subst replaces leaf symbols by terms (capture is avoided by never reusing
// bound-variable names: binders are always generated fresh).
func (t *T) Subst(m map[string]*T) *T {
	if len(m) == 0 {
		return t
	}
	if t.Args == nil && t.Bind == nil {
		if r, ok := m[t.Op]; ok {
			return r
		}
		return t
	}
	n := &T{Op: t.Op, Bind: t.Bind}
	if t.Bind != nil {
		// shadowing
		m2 := m
		for _, b := range t.Bind {
			if _, ok := m[b[0]]; ok {
				if &m2 == &m || len(m2) == len(m) {
					m2 = make(map[string]*T, len(m))
					for k, v := range m {
						m2[k] = v
					}
				}
				delete(m2, b[0])
			}
		}
		m = m2
		for _, p := range t.Pats {
			var np []*T
			for _, pt := range p {
				np = append(np, pt.Subst(m))
			}
			n.Pats = append(n.Pats, np)
		}
	}
	n.Args = make([]*T, len(t.Args))
	for i, a := range t.Args {
		n.Args[i] = a.Subst(m)
	}
	// the head symbol of an application can be substituted too (used for
	// region versions appearing as array terms only, never as heads) - no.
	return n
}

// Walk visits every application node.
func (t *T) Walk(f func(*T)) {
	f(t)
	for _, a := range t.Args {
		a.Walk(f)
	}
	for _, p := range t.Pats {
		for _, pt := range p {
			pt.Walk(f)
		}
	}
}

// Symbols collects leaf symbols and application heads.
func (t *T) Symbols(into map[string]bool) {
	t.Walk(func(n *T) {
		into[n.Op] = true
	})
}

func sortedKeys[V any](m map[string]V) []string {
	ks := make([]string, 0, len(m))
	for k := range m {
		ks = append(ks, k)
	}
	sort.Strings(ks)
	return ks
}

// symSafe maps an arbitrary string to a legal SMT-LIB simple symbol.
func symSafe(s string) string {
	var sb strings.Builder
	for _, r := range s {
		switch {
		case r >= 'a' && r <= 'z', r >= 'A' && r <= 'Z', r >= '0' && r <= '9':
			sb.WriteRune(r)
		case strings.ContainsRune("._$@/!%^&~+-<>=?", r):
			sb.WriteRune(r)
		case r == '*':
			sb.WriteString("^")
		case r == '[':
			sb.WriteString("<")
		case r == ']':
			sb.WriteString(">")
		case r == ' ', r == ',', r == '(', r == ')', r == '{', r == '}', r == ';', r == ':', r == '"', r == '\'', r == '`', r == '|', r == '\\', r == '#':
			sb.WriteString("_")
		default:
			sb.WriteString(fmt.Sprintf("u%x", r))
		}
	}
	out := sb.String()
	if out == "" || (out[0] >= '0' && out[0] <= '9') {
		out = "_" + out
	}
	return out
}
