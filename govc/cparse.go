package main

import (
	"fmt"
	"os"
	"regexp"
	"strconv"
	"strings"
	"unicode"
)

// ---------------------------------------------------------------------------
// Contract files

type Clause struct {
	Kind   string // requires ensures invariant calls boundary
	Name   string // optional @name
	Tags   []string
	Expr   Expr
	Src    string
	Loop   string // for invariant: "range(x)" or ordinal
	Callee string // for calls
	File   string
	Line   int
	Pkg    string // package path of the declaring file (file-level clauses)
}

type FnContract struct {
	Key          string // normalized function key
	PkgPath      string // package of the file that declares the contract (resolves bare identifiers)
	ParamNames   []string
	Tags         []string
	Safety       []string // tags for automatic safety obligations
	Requires     []*Clause
	Ensures      []*Clause
	Assumes      []*Clause // like ensures at call sites, but not proved for the body (listed as assumption)
	Presumes     []*Clause // a stated assumption about the entry state: assumed like a requires in the body, assumed (not checked) at call sites, listed as assumption
	Given        []*Clause // an assumption about the execution (e.g. no counter overflow): assumed at the function's own exit and at call sites, listed as assumption
	Invariants   []*Clause
	Calls        []*Clause
	Boundary     []*Clause
	Modifies     []string // ghost vars and heap regions (trusted contracts)
	Trusted      bool
	Pure         bool
	Bounded      string
	Inline       bool
	NoBody       bool     // contract only used at call sites, body never verified
	Nullable     []string // pointer params that may be nil
	Fresh        bool     // results are freshly allocated
	MayPanic     bool
	RgEnsures    []*Clause // rely/guarantee tier: postconditions proved with every other request allowed to act between two store/Lightning calls
	RgCalls      []*Clause // rely/guarantee tier: call-site clauses
	RgInvariants []*Clause // rely/guarantee tier: loop invariants (the sequential ones are not used there)
	Records      []string  // ghost (error, counter) updated at every call site: `records api.err api.calls`
	File         string
	Line         int
}

type Lemma struct {
	Name string
	Tags []string
	Expr Expr
	Src  string
	Vars [][2]string
	File string
	Line int
}

type Macro struct {
	Params []string
	Body   Expr
}

// StructShape pins the exported field list of a request/wire type:
// `struct nut03.PostSwapRequest [C08] Inputs Outputs`.
type StructShape struct {
	Type    string
	Pkg     string // package path the directive was written in
	Tags    []string
	Fields  []string
	File    string
	Line    int
	Imports map[string]string
}

type ContractSet struct {
	Implements map[string]string // concrete receiver "(*pkg.T)" -> interface "(pkg.I)"
	Macros     map[string]*Macro
	Fns        map[string]*FnContract
	Order      []string
	Lemmas     []*Lemma
	Structs    []*StructShape
	EveryCall  []*Clause // `everycall <callee> asserts ...`: a call-site clause for every function under contract that carries one of its tags
	Rely       []*Clause // what other requests may do to the ghost state in one step (two-state, old() = before)
	Imports    map[string]string
}

var clauseKw = map[string]bool{"func": true, "requires": true, "ensures": true, "loop": true, "calls": true,
	"tags": true, "safety": true, "boundary": true, "modifies": true, "trusted": true, "pure": true,
	"bounded": true, "lemma": true, "import": true, "inline": true, "nobody": true, "nullable": true,
	"fresh": true, "maypanic": true, "records": true, "struct": true, "rgensures": true, "rgcalls": true, "rgloop": true, "rely": true, "everycall": true, "end": true, "macro": true, "assumes": true, "given": true, "presumes": true, "implements": true}

var reTagList = regexp.MustCompile(`^\[([A-Za-z0-9, ]+)\]\s*`)
var reAtName = regexp.MustCompile(`^@([A-Za-z0-9_.\-]+)\s*`)

// ParseContractFile reads a contract file. In .go files only `//@` lines are
// read; in .gvc files every non-comment line is read. pkgPath qualifies
// package-relative function names ("" for .gvc files).
func (cs *ContractSet) ParseContractFile(path, pkgPath string) error {
	data, err := os.ReadFile(path)
	if err != nil {
		return err
	}
	isGo := strings.HasSuffix(path, ".go")
	type rawLine struct {
		text string
		line int
	}
	var lines []rawLine
	for i, ln := range strings.Split(string(data), "\n") {
		s := strings.TrimSpace(ln)
		if isGo {
			if !strings.HasPrefix(s, "//@") {
				continue
			}
			s = strings.TrimSpace(strings.TrimPrefix(s, "//@"))
		} else {
			if strings.HasPrefix(s, "//@") {
				s = strings.TrimSpace(strings.TrimPrefix(s, "//@"))
			}
			if strings.HasPrefix(s, "#") {
				continue
			}
		}
		if s == "" {
			continue
		}
		lines = append(lines, rawLine{s, i + 1})
	}
	// join continuation lines
	var joined []rawLine
	for _, l := range lines {
		first := l.text
		if i := strings.IndexAny(first, " \t"); i >= 0 {
			first = first[:i]
		}
		if clauseKw[first] || len(joined) == 0 {
			joined = append(joined, l)
		} else {
			joined[len(joined)-1].text += " " + l.text
		}
	}
	var cur *FnContract
	for _, l := range joined {
		kw, rest := l.text, ""
		if i := strings.IndexAny(kw, " \t"); i >= 0 {
			kw, rest = l.text[:i], strings.TrimSpace(l.text[i+1:])
		}
		fail := func(f string, a ...any) error {
			return fmt.Errorf("%s:%d: %s", path, l.line, fmt.Sprintf(f, a...))
		}
		parseClause := func(kind, rest string) (*Clause, error) {
			c := &Clause{Kind: kind, File: path, Line: l.line}
			for {
				if m := reAtName.FindStringSubmatch(rest); m != nil {
					c.Name = m[1]
					rest = rest[len(m[0]):]
					continue
				}
				if m := reTagList.FindStringSubmatch(rest); m != nil {
					for _, t := range strings.Split(m[1], ",") {
						c.Tags = append(c.Tags, strings.TrimSpace(t))
					}
					rest = rest[len(m[0]):]
					continue
				}
				break
			}
			c.Src = rest
			e, err := ParseExprM(rest, cs.Macros)
			if err != nil {
				return nil, fail("%v in %q", err, rest)
			}
			c.Expr = e
			return c, nil
		}
		switch kw {
		case "implements":
			f := strings.Fields(rest)
			if len(f) != 2 {
				return fail("implements (*pkg.Type) (pkg.Interface)")
			}
			ck, _, err1 := cs.normalizeFuncKey(f[0]+".X", pkgPath)
			ik, _, err2 := cs.normalizeFuncKey(f[1]+".X", pkgPath)
			if err1 != nil || err2 != nil {
				return fail("implements: %v %v", err1, err2)
			}
			cs.Implements[strings.TrimSuffix(ck, ".X")] = strings.TrimSuffix(ik, ".X")
		case "macro":
			i := strings.Index(rest, "=")
			m := reFuncSpec.FindStringSubmatch(strings.TrimSpace(rest[:max(i, 0)]))
			if i < 0 || m == nil {
				return fail("macro name(params) = expr")
			}
			var params []string
			for _, p := range strings.Split(m[4], ",") {
				if p = strings.TrimSpace(p); p != "" {
					params = append(params, p)
				}
			}
			body, err := ParseExprM(strings.TrimSpace(rest[i+1:]), cs.Macros)
			if err != nil {
				return fail("%v in macro body", err)
			}
			cs.Macros[m[2]] = &Macro{Params: params, Body: body}
		case "import":
			f := strings.Fields(rest)
			if len(f) != 2 {
				return fail("import name \"path\"")
			}
			cs.Imports[f[0]] = strings.Trim(f[1], `"`)
		case "func":
			key, params, err := cs.normalizeFuncKey(rest, pkgPath)
			if err != nil {
				return fail("%v", err)
			}
			if old, ok := cs.Fns[key]; ok {
				cur = old // allow splitting a contract across files
			} else {
				cur = &FnContract{Key: key, File: path, Line: l.line, PkgPath: pkgPath}
				cs.Fns[key] = cur
				cs.Order = append(cs.Order, key)
			}
			if params != nil {
				cur.ParamNames = params
			}
		case "everycall":
			i := strings.Index(rest, " asserts ")
			if i < 0 {
				return fail("everycall <callee> asserts <expr>")
			}
			c, err := parseClause("calls", strings.TrimSpace(rest[i+len(" asserts "):]))
			if err != nil {
				return err
			}
			ck, _, err := cs.normalizeFuncKey(strings.TrimSpace(rest[:i]), pkgPath)
			if err != nil {
				return fail("%v", err)
			}
			c.Callee = ck
			c.Pkg = pkgPath
			cs.EveryCall = append(cs.EveryCall, c)
			cur = nil
		case "rely":
			// rely @name expr   (two-state: old(x) is the value before the other request's step)
			c, err := parseClause("rely", rest)
			if err != nil {
				return err
			}
			c.Pkg = pkgPath
			cs.Rely = append(cs.Rely, c)
			cur = nil
		case "struct":
			// struct pkg.Type [tags] Field Field ...
			f := strings.SplitN(rest, " ", 2)
			ss := &StructShape{Type: f[0], Pkg: pkgPath, File: path, Line: l.line, Imports: cs.Imports}
			if len(f) == 2 {
				r2 := strings.TrimSpace(f[1])
				if m := reTagList.FindStringSubmatch(r2); m != nil {
					for _, t := range strings.Split(m[1], ",") {
						ss.Tags = append(ss.Tags, strings.TrimSpace(t))
					}
					r2 = r2[len(m[0]):]
				}
				ss.Fields = strings.Fields(r2)
			}
			cs.Structs = append(cs.Structs, ss)
			cur = nil
		case "lemma":
			// lemma name [tags] (x Sort, y Sort) :: expr
			lm := &Lemma{File: path, Line: l.line}
			f := strings.SplitN(rest, " ", 2)
			if len(f) != 2 {
				return fail("lemma name expr")
			}
			lm.Name = f[0]
			rest = strings.TrimSpace(f[1])
			if m := reTagList.FindStringSubmatch(rest); m != nil {
				for _, t := range strings.Split(m[1], ",") {
					lm.Tags = append(lm.Tags, strings.TrimSpace(t))
				}
				rest = rest[len(m[0]):]
			}
			lm.Src = rest
			e, err := ParseExprM(rest, cs.Macros)
			if err != nil {
				return fail("%v in %q", err, rest)
			}
			lm.Expr = e
			cs.Lemmas = append(cs.Lemmas, lm)
			cur = nil
		default:
			if cur == nil {
				return fail("clause %q outside a func block", kw)
			}
			switch kw {
			case "tags":
				cur.Tags = append(cur.Tags, strings.Fields(rest)...)
			case "safety":
				cur.Safety = append(cur.Safety, strings.Fields(rest)...)
			case "modifies":
				for _, m := range strings.Split(rest, ",") {
					if m = strings.TrimSpace(m); m != "" {
						cur.Modifies = append(cur.Modifies, m)
					}
				}
			case "nullable":
				cur.Nullable = append(cur.Nullable, strings.Fields(rest)...)
			case "trusted":
				cur.Trusted = true
			case "nobody":
				cur.NoBody = true
			case "pure":
				cur.Pure = true
			case "inline":
				cur.Inline = true
			case "fresh":
				cur.Fresh = true
			case "maypanic":
				cur.MayPanic = true
			case "records":
				cur.Records = strings.Fields(rest)
				if len(cur.Records) != 2 {
					return fail("records <error ghost> <counter ghost>")
				}
			case "bounded":
				cur.Bounded = rest
			case "end":
				cur = nil
			case "requires", "ensures", "boundary", "assumes", "given", "presumes", "rgensures":
				c, err := parseClause(kw, rest)
				if err != nil {
					return err
				}
				switch kw {
				case "requires":
					cur.Requires = append(cur.Requires, c)
				case "ensures":
					cur.Ensures = append(cur.Ensures, c)
				case "boundary":
					cur.Boundary = append(cur.Boundary, c)
				case "assumes":
					cur.Assumes = append(cur.Assumes, c)
				case "given":
					cur.Given = append(cur.Given, c)
				case "presumes":
					cur.Presumes = append(cur.Presumes, c)
				case "rgensures":
					cur.RgEnsures = append(cur.RgEnsures, c)
				}
			case "loop", "rgloop":
				// loop <key> invariant <expr>
				i := strings.Index(rest, " invariant ")
				if i < 0 {
					return fail("loop <key> invariant <expr>")
				}
				c, err := parseClause("invariant", strings.TrimSpace(rest[i+len(" invariant "):]))
				if err != nil {
					return err
				}
				c.Loop = strings.TrimSpace(rest[:i])
				if kw == "rgloop" {
					cur.RgInvariants = append(cur.RgInvariants, c)
				} else {
					cur.Invariants = append(cur.Invariants, c)
				}
			case "calls", "rgcalls":
				i := strings.Index(rest, " asserts ")
				if i < 0 {
					return fail("calls <callee> asserts <expr>")
				}
				c, err := parseClause("calls", strings.TrimSpace(rest[i+len(" asserts "):]))
				if err != nil {
					return err
				}
				ck, _, err := cs.normalizeFuncKey(strings.TrimSpace(rest[:i]), pkgPath)
				if err != nil {
					return fail("%v", err)
				}
				c.Callee = ck
				if kw == "rgcalls" {
					cur.RgCalls = append(cur.RgCalls, c)
				} else {
					cur.Calls = append(cur.Calls, c)
				}
			default:
				return fail("unknown clause keyword %q", kw)
			}
		}
	}
	return nil
}

var reFuncSpec = regexp.MustCompile(`^(\(\*?[^)]+\)\.)?([^\s(]+)\s*(\(([^)]*)\))?\s*$`)

// normalizeFuncKey turns "(*Mint).Swap", "AmountSplit", "hex.DecodeString",
// "(storage.MintDB).SaveProofs(ps)" into the key used by ssa: full package
// paths, e.g. "(*github.com/elnosh/gonuts/mint.Mint).Swap".
func (cs *ContractSet) normalizeFuncKey(spec, pkgPath string) (string, []string, error) {
	if strings.HasPrefix(strings.TrimSpace(spec), "builtin.") {
		return strings.TrimSpace(spec), nil, nil
	}
	m := reFuncSpec.FindStringSubmatch(strings.TrimSpace(spec))
	if m == nil {
		return "", nil, fmt.Errorf("cannot parse function spec %q", spec)
	}
	recv, name, plist := m[1], m[2], m[4]
	var params []string
	if m[3] != "" {
		for _, p := range strings.Split(plist, ",") {
			if p = strings.TrimSpace(p); p != "" {
				params = append(params, p)
			}
		}
		if params == nil {
			params = []string{}
		}
	}
	qual := func(s string) (string, error) {
		// s is Type or alias.Type or path.Type
		if i := strings.LastIndex(s, "."); i >= 0 {
			p, n := s[:i], s[i+1:]
			if full, ok := cs.Imports[p]; ok {
				return full + "." + n, nil
			}
			return p + "." + n, nil
		}
		if pkgPath == "" {
			return "", fmt.Errorf("unqualified name %q in a file without package", s)
		}
		return pkgPath + "." + s, nil
	}
	if recv != "" {
		r := strings.TrimSuffix(strings.TrimPrefix(recv, "("), ").")
		ptr := strings.HasPrefix(r, "*")
		r = strings.TrimPrefix(r, "*")
		q, err := qual(r)
		if err != nil {
			return "", nil, err
		}
		if ptr {
			return "(*" + q + ")." + name, params, nil
		}
		return "(" + q + ")." + name, params, nil
	}
	q, err := qual(name)
	return q, params, err
}

// ---------------------------------------------------------------------------
// Expression AST

type Expr interface{ exprNode() }

type (
	EIdent struct{ Name string }
	EInt   struct{ Val string }
	EStr   struct{ Val string }
	EBool  struct{ Val bool }
	ENil   struct{}
	EUnary struct {
		Op string
		X  Expr
	}
	EBinary struct {
		Op   string
		X, Y Expr
	}
	ESel struct {
		X    Expr
		Name string
	}
	EIndex struct{ X, I Expr }
	ECall  struct {
		Fn   string
		Args []Expr
	}
	EQuant struct {
		Forall bool
		Vars   [][2]string // name, sort ("" = Int)
		Body   Expr
	}
	ECond struct{ C, A, B Expr }
	EOld  struct{ X Expr }
)

func (*EIdent) exprNode()  {}
func (*EInt) exprNode()    {}
func (*EStr) exprNode()    {}
func (*EBool) exprNode()   {}
func (*ENil) exprNode()    {}
func (*EUnary) exprNode()  {}
func (*EBinary) exprNode() {}
func (*ESel) exprNode()    {}
func (*EIndex) exprNode()  {}
func (*ECall) exprNode()   {}
func (*EQuant) exprNode()  {}
func (*ECond) exprNode()   {}
func (*EOld) exprNode()    {}

type tok struct {
	kind string // id int str op eof
	val  string
}

func lexExpr(s string) ([]tok, error) {
	var out []tok
	i := 0
	for i < len(s) {
		c := s[i]
		switch {
		case c == ' ' || c == '\t' || c == '\n':
			i++
		case unicode.IsLetter(rune(c)) || c == '_':
			j := i
			for j < len(s) && (unicode.IsLetter(rune(s[j])) || unicode.IsDigit(rune(s[j])) || s[j] == '_') {
				j++
			}
			out = append(out, tok{"id", s[i:j]})
			i = j
		case c >= '0' && c <= '9':
			j := i
			for j < len(s) && ((s[j] >= '0' && s[j] <= '9') || s[j] == '_' || s[j] == 'x' || (s[j] >= 'a' && s[j] <= 'f') || (s[j] >= 'A' && s[j] <= 'F')) {
				j++
			}
			out = append(out, tok{"int", strings.ReplaceAll(s[i:j], "_", "")})
			i = j
		case c == '"':
			j := i + 1
			for j < len(s) && s[j] != '"' {
				if s[j] == '\\' {
					j++
				}
				j++
			}
			if j >= len(s) {
				return nil, fmt.Errorf("unterminated string")
			}
			v, err := strconv.Unquote(s[i : j+1])
			if err != nil {
				return nil, err
			}
			out = append(out, tok{"str", v})
			i = j + 1
		default:
			ops := []string{"<==>", "==>", "::", "==", "!=", "<=", ">=", "&&", "||", "<<", ">>"}
			matched := false
			for _, op := range ops {
				if strings.HasPrefix(s[i:], op) {
					out = append(out, tok{"op", op})
					i += len(op)
					matched = true
					break
				}
			}
			if matched {
				continue
			}
			if strings.ContainsRune("+-*/%<>!()[].,?:&|", rune(c)) {
				out = append(out, tok{"op", string(c)})
				i++
				continue
			}
			return nil, fmt.Errorf("unexpected character %q", c)
		}
	}
	out = append(out, tok{"eof", ""})
	return out, nil
}

type eparser struct {
	toks   []tok
	pos    int
	macros map[string]*Macro
}

func ParseExpr(s string) (Expr, error) { return ParseExprM(s, nil) }

func ParseExprM(s string, macros map[string]*Macro) (Expr, error) {
	toks, err := lexExpr(s)
	if err != nil {
		return nil, err
	}
	p := &eparser{toks: toks, macros: macros}
	e, err := p.parseImp()
	if err != nil {
		return nil, err
	}
	if p.peek().kind != "eof" {
		return nil, fmt.Errorf("unexpected %q", p.peek().val)
	}
	return e, nil
}

func (p *eparser) peek() tok { return p.toks[p.pos] }
func (p *eparser) next() tok { t := p.toks[p.pos]; p.pos++; return t }
func (p *eparser) isOp(v string) bool {
	t := p.peek()
	return t.kind == "op" && t.val == v
}
func (p *eparser) expectOp(v string) error {
	if !p.isOp(v) {
		return fmt.Errorf("expected %q, got %q", v, p.peek().val)
	}
	p.pos++
	return nil
}

// precedence (low to high): <==>  ==>  ?:  ||  &&  cmp  + -  * / %  unary  postfix
func (p *eparser) parseImp() (Expr, error) {
	l, err := p.parseImp1()
	if err != nil {
		return nil, err
	}
	for p.isOp("<==>") {
		p.next()
		r, err := p.parseImp1()
		if err != nil {
			return nil, err
		}
		l = &EBinary{"<==>", l, r}
	}
	return l, nil
}

func (p *eparser) parseImp1() (Expr, error) {
	l, err := p.parseCond()
	if err != nil {
		return nil, err
	}
	if p.isOp("==>") {
		p.next()
		r, err := p.parseImp1() // right assoc
		if err != nil {
			return nil, err
		}
		return &EBinary{"==>", l, r}, nil
	}
	return l, nil
}

func (p *eparser) parseCond() (Expr, error) {
	c, err := p.parseOr()
	if err != nil {
		return nil, err
	}
	if p.isOp("?") {
		p.next()
		a, err := p.parseCond()
		if err != nil {
			return nil, err
		}
		if err := p.expectOp(":"); err != nil {
			return nil, err
		}
		b, err := p.parseCond()
		if err != nil {
			return nil, err
		}
		return &ECond{c, a, b}, nil
	}
	return c, nil
}

func (p *eparser) parseOr() (Expr, error) {
	l, err := p.parseAnd()
	if err != nil {
		return nil, err
	}
	for p.isOp("||") {
		p.next()
		r, err := p.parseAnd()
		if err != nil {
			return nil, err
		}
		l = &EBinary{"||", l, r}
	}
	return l, nil
}

func (p *eparser) parseAnd() (Expr, error) {
	l, err := p.parseCmp()
	if err != nil {
		return nil, err
	}
	for p.isOp("&&") {
		p.next()
		r, err := p.parseCmp()
		if err != nil {
			return nil, err
		}
		l = &EBinary{"&&", l, r}
	}
	return l, nil
}

func (p *eparser) parseCmp() (Expr, error) {
	l, err := p.parseAdd()
	if err != nil {
		return nil, err
	}
	// chained comparisons a <= b < c
	var res Expr
	for {
		t := p.peek()
		if t.kind == "op" && (t.val == "==" || t.val == "!=" || t.val == "<" || t.val == "<=" || t.val == ">" || t.val == ">=") {
			p.next()
			r, err := p.parseAdd()
			if err != nil {
				return nil, err
			}
			c := Expr(&EBinary{t.val, l, r})
			if res == nil {
				res = c
			} else {
				res = &EBinary{"&&", res, c}
			}
			l = r
			continue
		}
		if t.kind == "id" && t.val == "in" {
			p.next()
			r, err := p.parseAdd()
			if err != nil {
				return nil, err
			}
			c := Expr(&EBinary{"in", l, r})
			if res == nil {
				res = c
			} else {
				res = &EBinary{"&&", res, c}
			}
			l = r
			continue
		}
		break
	}
	if res != nil {
		return res, nil
	}
	return l, nil
}

func (p *eparser) parseAdd() (Expr, error) {
	l, err := p.parseMul()
	if err != nil {
		return nil, err
	}
	for p.isOp("+") || p.isOp("-") {
		op := p.next().val
		r, err := p.parseMul()
		if err != nil {
			return nil, err
		}
		l = &EBinary{op, l, r}
	}
	return l, nil
}

func (p *eparser) parseMul() (Expr, error) {
	l, err := p.parseUnary()
	if err != nil {
		return nil, err
	}
	for p.isOp("*") || p.isOp("/") || p.isOp("%") {
		op := p.next().val
		r, err := p.parseUnary()
		if err != nil {
			return nil, err
		}
		l = &EBinary{op, l, r}
	}
	return l, nil
}

func (p *eparser) parseUnary() (Expr, error) {
	if p.isOp("!") || p.isOp("-") || p.isOp("*") {
		op := p.next().val
		x, err := p.parseUnary()
		if err != nil {
			return nil, err
		}
		return &EUnary{op, x}, nil
	}
	return p.parsePostfix()
}

func (p *eparser) parsePostfix() (Expr, error) {
	x, err := p.parsePrimary()
	if err != nil {
		return nil, err
	}
	for {
		switch {
		case p.isOp("."):
			p.next()
			t := p.next()
			if t.kind != "id" {
				return nil, fmt.Errorf("expected field name after '.'")
			}
			x = &ESel{x, t.val}
		case p.isOp("["):
			p.next()
			i, err := p.parseImp()
			if err != nil {
				return nil, err
			}
			if err := p.expectOp("]"); err != nil {
				return nil, err
			}
			x = &EIndex{x, i}
		case p.isOp("("):
			// call: x must be an identifier or pkg.ident
			name := dottedName(x)
			if name == "" {
				return nil, fmt.Errorf("call of non-identifier")
			}
			p.next()
			var args []Expr
			for !p.isOp(")") {
				a, err := p.parseImp()
				if err != nil {
					return nil, err
				}
				args = append(args, a)
				if p.isOp(",") {
					p.next()
				} else {
					break
				}
			}
			if err := p.expectOp(")"); err != nil {
				return nil, err
			}
			if name == "old" && len(args) == 1 {
				x = &EOld{args[0]}
			} else if m, ok := p.macros[name]; ok {
				if len(args) != len(m.Params) {
					return nil, fmt.Errorf("macro %s expects %d arguments", name, len(m.Params))
				}
				sub := map[string]Expr{}
				for i, pn := range m.Params {
					sub[pn] = args[i]
				}
				x = substExpr(m.Body, sub)
			} else {
				x = &ECall{name, args}
			}
		default:
			return x, nil
		}
	}
}

func (p *eparser) parsePrimary() (Expr, error) {
	t := p.next()
	switch t.kind {
	case "int":
		return &EInt{t.val}, nil
	case "str":
		return &EStr{t.val}, nil
	case "id":
		switch t.val {
		case "true":
			return &EBool{true}, nil
		case "false":
			return &EBool{false}, nil
		case "nil":
			return &ENil{}, nil
		case "forall", "exists":
			var vars [][2]string
			for {
				v := p.next()
				if v.kind != "id" {
					return nil, fmt.Errorf("expected bound variable")
				}
				sort := ""
				if p.peek().kind == "id" && p.peek().val != "in" { // `forall y Str :: ...`
					sort = p.next().val
				} else if p.peek().kind == "str" { // `forall a "(Array Int X)" :: ...`
					sort = p.next().val
				}
				vars = append(vars, [2]string{v.val, sort})
				if p.isOp(",") {
					p.next()
					continue
				}
				break
			}
			if err := p.expectOp("::"); err != nil {
				return nil, err
			}
			body, err := p.parseImp()
			if err != nil {
				return nil, err
			}
			return &EQuant{t.val == "forall", vars, body}, nil
		}
		return &EIdent{t.val}, nil
	case "op":
		if t.val == "(" {
			e, err := p.parseImp()
			if err != nil {
				return nil, err
			}
			if err := p.expectOp(")"); err != nil {
				return nil, err
			}
			return e, nil
		}
	}
	return nil, fmt.Errorf("unexpected token %q", t.val)
}

func dottedName(x Expr) string {
	switch f := x.(type) {
	case *EIdent:
		return f.Name
	case *ESel:
		if p := dottedName(f.X); p != "" {
			return p + "." + f.Name
		}
	}
	return ""
}

// substExpr replaces free identifiers by expressions (macro expansion).
func substExpr(e Expr, sub map[string]Expr) Expr {
	switch n := e.(type) {
	case *EIdent:
		if r, ok := sub[n.Name]; ok {
			return r
		}
		return n
	case *EUnary:
		return &EUnary{n.Op, substExpr(n.X, sub)}
	case *EBinary:
		return &EBinary{n.Op, substExpr(n.X, sub), substExpr(n.Y, sub)}
	case *ESel:
		return &ESel{substExpr(n.X, sub), n.Name}
	case *EIndex:
		return &EIndex{substExpr(n.X, sub), substExpr(n.I, sub)}
	case *ECall:
		args := make([]Expr, len(n.Args))
		for i, a := range n.Args {
			args[i] = substExpr(a, sub)
		}
		return &ECall{n.Fn, args}
	case *EQuant:
		inner := map[string]Expr{}
		for k, v := range sub {
			inner[k] = v
		}
		for _, v := range n.Vars {
			delete(inner, v[0])
		}
		return &EQuant{n.Forall, n.Vars, substExpr(n.Body, inner)}
	case *ECond:
		return &ECond{substExpr(n.C, sub), substExpr(n.A, sub), substExpr(n.B, sub)}
	case *EOld:
		return &EOld{substExpr(n.X, sub)}
	}
	return e
}

// splitConj splits a clause expression into its top-level conjuncts,
// distributing an outer implication / universal quantifier over them.
func splitConj(e Expr) []Expr {
	switch n := e.(type) {
	case *EBinary:
		if n.Op == "&&" {
			return append(splitConj(n.X), splitConj(n.Y)...)
		}
		if n.Op == "==>" {
			var out []Expr
			for _, c := range splitConj(n.Y) {
				out = append(out, &EBinary{"==>", n.X, c})
			}
			return out
		}
	case *EQuant:
		if n.Forall {
			var out []Expr
			for _, c := range splitConj(n.Body) {
				out = append(out, &EQuant{true, n.Vars, c})
			}
			return out
		}
	}
	return []Expr{e}
}
