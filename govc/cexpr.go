package main

import (
	"fmt"
	"go/constant"
	"go/types"
	"strconv"
	"strings"

	"golang.org/x/tools/go/ssa"
)

// CV is the value of a contract sub-expression.
type CV struct {
	T    *T
	Type types.Type // Go type, nil for ghost/spec values
	Sort string
	Addr *Addr
	Pkg  *types.Package // non-nil when the expression denotes a package
}

// CEnv evaluates contract expressions to SMT terms.
type CEnv struct {
	ft       *FT
	vars     map[string]*CV
	cur      State
	old      State
	body     *Body
	pkg      *types.Package // package whose scope resolves bare identifiers
	nq       int
	at       *ssa.BasicBlock // program point (for resolving local names)
	phiNames []string        // source names of loop-carried variables bound in vars
	noRename bool            // (internal) do not try the renamed-local fallback
}

func (ft *FT) fnEnv(b *Body, st State) *CEnv {
	env := &CEnv{ft: ft, vars: map[string]*CV{}, cur: st, old: ft.entryStateForOld(), body: b}
	if ft.fn.Pkg != nil {
		env.pkg = ft.fn.Pkg.Pkg
	}
	for k, v := range ft.paramCVs {
		env.vars[k] = v
	}
	// a renamed parameter: the contract still uses the name it had on the unchanged tree
	// (positional alias from contracts/names.json)
	if old := ft.e.oldParams(ft.fn.String()); old != nil {
		for i, p := range ft.fn.Params {
			if i < len(old) && old[i] != "" && old[i] != p.Name() {
				if _, taken := env.vars[old[i]]; !taken {
					if cur, ok := env.vars[p.Name()]; ok {
						env.vars[old[i]] = cur
						ft.abstraction("contract identifier " + old[i] + " read as the parameter " + p.Name() + " (renamed, same position)")
					}
				}
			}
		}
	}
	return env
}

func (ft *FT) entryStateForOld() State { return ft.entrySnapshot }

func (e *CEnv) EvalBool(x Expr) (t *T, err error) {
	defer func() {
		if r := recover(); r != nil {
			if ce, ok := r.(cerr); ok {
				err = ce.err
				return
			}
			panic(r)
		}
	}()
	cv := e.eval(x)
	if cv.Sort != "Bool" {
		return nil, fmt.Errorf("expression is not boolean (sort %s)", cv.Sort)
	}
	return cv.T, nil
}

// Eval evaluates an expression of any sort.
func (e *CEnv) Eval(x Expr) (cv *CV, err error) {
	defer func() {
		if r := recover(); r != nil {
			if ce, ok := r.(cerr); ok {
				err = ce.err
				return
			}
			panic(r)
		}
	}()
	return e.eval(x), nil
}

type cerr struct{ err error }

func (e *CEnv) fail(f string, a ...any) { panic(cerr{fmt.Errorf(f, a...)}) }

func (e *CEnv) region(name string) *T { return e.ft.region(e.cur, name) }

func (e *CEnv) goVal(t *T, typ types.Type) *CV {
	return &CV{T: t, Type: typ, Sort: e.ft.sortOf(typ)}
}

func (e *CEnv) eval(x Expr) *CV {
	ft := e.ft
	_ = ft.e.sorts
	switch n := x.(type) {
	case *EInt:
		v, err := strconv.ParseUint(n.Val, 0, 64)
		if err != nil {
			// big literal
			return &CV{T: L(n.Val), Sort: "Int"}
		}
		return &CV{T: L(fmt.Sprint(v)), Sort: "Int"}
	case *EBool:
		if n.Val {
			return &CV{T: tTrue, Sort: "Bool"}
		}
		return &CV{T: tFalse, Sort: "Bool"}
	case *EStr:
		return &CV{T: ft.strLit(n.Val), Sort: "Str", Type: types.Typ[types.String]}
	case *ENil:
		return &CV{T: L("nil"), Sort: "Nil"}
	case *EIdent:
		return e.ident(n.Name)
	case *EOld:
		sub := *e
		sub.cur = e.old
		return sub.eval(n.X)
	case *EUnary:
		v := e.eval(n.X)
		switch n.Op {
		case "!":
			e.want(v, "Bool")
			return &CV{T: Not(v.T), Sort: "Bool"}
		case "-":
			e.want(v, "Int")
			return &CV{T: A("-", v.T), Sort: "Int"}
		case "*":
			return e.deref(v)
		}
	case *ECond:
		c := e.eval(n.C)
		e.want(c, "Bool")
		a, b := e.eval(n.A), e.eval(n.B)
		e.unify(a, b)
		return &CV{T: Ite(c.T, a.T, b.T), Sort: a.Sort, Type: a.Type}
	case *EBinary:
		return e.binary(n)
	case *ESel:
		return e.sel(n)
	case *EIndex:
		return e.index(n)
	case *ECall:
		return e.call(n)
	case *EQuant:
		var binds [][2]string
		sub := *e
		sub.vars = map[string]*CV{}
		for k, v := range e.vars {
			sub.vars[k] = v
		}
		for _, v := range n.Vars {
			so := v[1]
			if so == "" {
				so = "Int"
			}
			ft.nq++
			name := fmt.Sprintf("%s!q%d", v[0], ft.nq)
			binds = append(binds, [2]string{name, so})
			cv := &CV{T: L(name), Sort: so}
			if so == "Int" {
				cv.Type = nil
			}
			if so == "Str" {
				cv.Type = types.Typ[types.String]
			}
			sub.vars[v[0]] = cv
		}
		body := sub.eval(n.Body)
		e.want(body, "Bool")
		if n.Forall {
			return &CV{T: Forall(binds, body.T), Sort: "Bool"}
		}
		return &CV{T: Exists(binds, body.T), Sort: "Bool"}
	}
	e.fail("unsupported expression %T", x)
	return nil
}

func (e *CEnv) want(v *CV, sort string) {
	if v.Sort != sort {
		e.fail("expected %s, got %s (%s)", sort, v.Sort, v.T)
	}
}

func (e *CEnv) unify(a, b *CV) {
	if a.Sort == "Nil" && b.Sort != "Nil" {
		a.Sort, a.T = b.Sort, e.nilOf(b.Sort)
	}
	if b.Sort == "Nil" && a.Sort != "Nil" {
		b.Sort, b.T = a.Sort, e.nilOf(a.Sort)
	}
	if a.Sort != b.Sort {
		e.fail("sort mismatch: %s (%s) vs %s (%s)", a.Sort, a.T, b.Sort, b.T)
	}
}

func (e *CEnv) nilOf(sort string) *T {
	switch sort {
	case "Ref":
		return L("nil")
	case "Iface":
		return L("nil.Iface")
	}
	e.fail("nil is not a value of sort %s", sort)
	return nil
}

func (e *CEnv) ident(name string) *CV {
	ft := e.ft
	if v, ok := e.vars[name]; ok {
		for _, pn := range e.phiNames {
			if pn == name {
				ft.noteLocalName(name, v.Type)
			}
		}
		return v
	}
	if gs, ok := ft.e.prelude.Ghosts[name]; ok {
		return &CV{T: e.region(name), Sort: gs}
	}
	if f, ok := ft.e.prelude.Fns[name]; ok && len(f.Args) == 0 {
		ft.usedSpec[name] = true
		return &CV{T: L(name), Sort: f.Res}
	}
	// local variable living in memory (Alloc with that source name), or an SSA
	// register the debug info maps the source name to
	if e.body != nil {
		if cv := e.allocVar(name); cv != nil {
			ft.noteLocalName(name, cv.Type)
			return cv
		}
		if cv := e.debugVar(name); cv != nil {
			ft.noteLocalName(name, cv.Type)
			return cv
		}
	}
	// package-level object of the function's own package, or an imported package
	if e.pkg != nil {
		if obj := e.pkg.Scope().Lookup(name); obj != nil {
			return e.object(obj)
		}
		for _, imp := range e.pkg.Imports() {
			if imp.Name() == name {
				return &CV{Pkg: imp, Sort: "Pkg"}
			}
		}
	}
	if p := ft.e.pkgByName[name]; p != nil {
		return &CV{Pkg: p, Sort: "Pkg"}
	}
	// a local the contract names may have been renamed: the committed name table
	// (contracts/names.json, types of the contract's locals on the unchanged tree)
	// says which type it had; if exactly one local of that type is new to the
	// contract's vocabulary, the clause is read with it
	if cv := e.renamedLocal(name); cv != nil {
		return cv
	}
	e.fail("unknown identifier %q", name)
	return nil
}

func (e *CEnv) renamedLocal(name string) *CV {
	ft := e.ft
	if e.body == nil || ft.fn == nil || ft.e.names == nil || e.noRename {
		return nil
	}
	table := ft.e.names[ft.fn.String()]
	want := table[name]
	if want == "" {
		return nil
	}
	cands := map[string]bool{}
	oldLocals := map[string]bool{}
	for _, n := range strings.Split(table["$locals"], ",") {
		oldLocals[n] = true
	}
	add := func(n string, t types.Type) {
		// a candidate is a local that did not exist under that name on the unchanged tree
		if n == "" || n == "_" || table[n] != "" || t == nil || oldLocals[n] {
			return
		}
		if types.TypeString(t, nil) == want {
			cands[n] = true
		}
	}
	fns := []*ssa.Function{e.body.fn}
	if e.body.fn != ft.fn {
		fns = append(fns, ft.fn)
	}
	for _, fn := range fns {
		for _, blk := range fn.Blocks {
			for _, in := range blk.Instrs {
				switch x := in.(type) {
				case *ssa.DebugRef:
					if x.Object() != nil && !x.IsAddr {
						if _, isVar := x.Object().(*types.Var); isVar {
							add(x.Object().Name(), x.Object().Type())
						}
					}
				case *ssa.Alloc:
					if p, ok := types.Unalias(x.Type()).Underlying().(*types.Pointer); ok {
						add(x.Comment, p.Elem())
					}
				case *ssa.Phi:
					add(x.Comment, x.Type())
				}
			}
		}
		for _, p := range fn.Params {
			delete(cands, p.Name())
		}
	}
	if len(cands) != 1 {
		return nil
	}
	var y string
	for k := range cands {
		y = k
	}
	sub := *e
	sub.noRename = true
	var cv *CV
	func() {
		defer func() {
			if r := recover(); r != nil {
				if _, isC := r.(cerr); !isC {
					panic(r)
				}
			}
		}()
		cv = sub.ident(y)
	}()
	if cv != nil {
		ft.abstraction("contract identifier " + name + " read as the local " + y + " (renamed; same type " + want + ")")
	}
	return cv
}

func (e *CEnv) allocVar(name string) *CV {
	var found *ssa.Alloc
	for _, blk := range e.body.fn.Blocks {
		for _, in := range blk.Instrs {
			if al, ok := in.(*ssa.Alloc); ok && al.Comment == name {
				if found != nil {
					return nil // ambiguous
				}
				found = al
			}
		}
	}
	if found == nil {
		return nil
	}
	v, ok := e.body.vals[found]
	if !ok || v.Addr == nil {
		return nil
	}
	pt := types.Unalias(found.Type()).Underlying().(*types.Pointer).Elem()
	return &CV{T: e.ft.load(e.cur, v.Addr), Type: pt, Sort: e.ft.sortOf(pt)}
}

func (e *CEnv) object(obj types.Object) *CV {
	ft := e.ft
	switch o := obj.(type) {
	case *types.Const:
		switch o.Val().Kind() {
		case constant.Int:
			return &CV{T: IntS(o.Val().ExactString()), Sort: "Int", Type: o.Type()}
		case constant.String:
			return &CV{T: ft.strLit(constant.StringVal(o.Val())), Sort: "Str", Type: o.Type()}
		case constant.Bool:
			if constant.BoolVal(o.Val()) {
				return &CV{T: tTrue, Sort: "Bool"}
			}
			return &CV{T: tFalse, Sort: "Bool"}
		}
	case *types.Var:
		// package-level variable: treated as a constant when never reassigned
		if g := ft.e.globalOf(o); g != nil && ft.e.immutableGlobal(g) {
			return &CV{T: ft.e.globalConst(ft, g), Type: o.Type(), Sort: ft.sortOf(o.Type())}
		}
	}
	e.fail("object %s cannot be used in a contract", obj)
	return nil
}

func (e *CEnv) deref(v *CV) *CV {
	ft := e.ft
	ft.noteRefSource(v.T)
	if v.Type == nil {
		e.fail("dereference of non-pointer")
	}
	p, ok := types.Unalias(v.Type).Underlying().(*types.Pointer)
	if !ok {
		e.fail("dereference of non-pointer type %s", v.Type)
	}
	if v.Addr != nil {
		return &CV{T: ft.load(e.cur, v.Addr), Type: p.Elem(), Sort: ft.sortOf(p.Elem())}
	}
	region, _, _, isSeq := ft.ptrRegion(v.Type)
	if isSeq {
		return &CV{T: Sel(e.region(region), v.T), Type: p.Elem(), Sort: ft.sortOf(p.Elem())}
	}
	return &CV{T: Sel(e.region(region), v.T), Type: p.Elem(), Sort: ft.sortOf(p.Elem())}
}

func (e *CEnv) sel(n *ESel) *CV {
	ft := e.ft
	S := ft.e.sorts
	// dotted ghost variables / spec constants (db.spent)
	if dn := dottedName(n); dn != "" {
		if _, shadow := e.vars[strings.SplitN(dn, ".", 2)[0]]; !shadow {
			if gs, ok := ft.e.prelude.Ghosts[dn]; ok {
				return &CV{T: e.region(dn), Sort: gs}
			}
			if f, ok := ft.e.prelude.Fns[dn]; ok && len(f.Args) == 0 {
				ft.usedSpec[dn] = true
				return &CV{T: L(dn), Sort: f.Res}
			}
		}
	}
	x := e.eval(n.X)
	if x.Pkg != nil {
		obj := x.Pkg.Scope().Lookup(n.Name)
		if obj == nil {
			e.fail("%s.%s not found", x.Pkg.Name(), n.Name)
		}
		return e.object(obj)
	}
	// ghost record sorts (prelude datatypes): field selector by convention Sort.field
	if x.Type == nil {
		sel := x.Sort + "." + n.Name
		if f, ok := ft.e.prelude.Fns[sel]; ok {
			ft.usedSpec[sel] = true
			return &CV{T: A(sel, x.T), Sort: f.Res}
		}
		if info := S.Info(x.Sort); info != nil {
			if f := S.Field(x.Sort, n.Name); f != nil {
				return &CV{T: A(f.Sel, x.T), Sort: f.Sort, Type: f.Type}
			}
		}
		e.fail("no field %s on sort %s", n.Name, x.Sort)
	}
	t := types.Unalias(x.Type)
	if _, ok := t.Underlying().(*types.Pointer); ok {
		x = e.deref(x)
		t = types.Unalias(x.Type)
	}
	st, ok := t.Underlying().(*types.Struct)
	if !ok {
		e.fail("field %s of non-struct %s", n.Name, t)
	}
	_ = st
	f := S.Field(x.Sort, n.Name)
	if f == nil {
		e.fail("no field %s in %s", n.Name, x.Sort)
	}
	return &CV{T: A(f.Sel, x.T), Type: f.Type, Sort: f.Sort}
}

func (e *CEnv) index(n *EIndex) *CV {
	ft := e.ft
	x := e.eval(n.X)
	i := e.eval(n.I)
	if x.Type != nil {
		switch u := types.Unalias(x.Type).Underlying().(type) {
		case *types.Slice:
			e.want(i, "Int")
			ft.noteRefSource(x.T)
			if isByte(u.Elem()) {
				return &CV{T: A("bat", Sel(e.region("H.Bytes"), x.T), i.T), Sort: "Int", Type: u.Elem()}
			}
			es := ft.sortOf(u.Elem())
			return &CV{T: Sel(Sel(e.region("HS."+es), x.T), i.T), Type: u.Elem(), Sort: es}
		case *types.Map:
			ks, vs := ft.sortOf(u.Key()), ft.sortOf(u.Elem())
			if i.Sort != ks {
				e.fail("map key sort %s, got %s", ks, i.Sort)
			}
			has := Sel(Sel(e.region("MK."+ks), x.T), i.T)
			raw := Sel(Sel(e.region("MV."+ks+"->"+vs), x.T), i.T)
			return &CV{T: Ite(has, raw, ft.e.sorts.Zero(u.Elem())), Type: u.Elem(), Sort: vs}
		case *types.Basic:
			e.want(i, "Int")
			return &CV{T: A("sat", x.T, i.T), Sort: "Int"}
		case *types.Array:
			e.want(i, "Int")
			if isByte(u.Elem()) {
				return &CV{T: A("bat", x.T, i.T), Sort: "Int"}
			}
			return &CV{T: Sel(x.T, i.T), Type: u.Elem(), Sort: ft.sortOf(u.Elem())}
		}
	}
	// ghost arrays
	if strings.HasPrefix(x.Sort, "(Array ") {
		ks, vs := splitArraySort(x.Sort)
		if i.Sort != ks {
			e.fail("array index sort %s, got %s", ks, i.Sort)
		}
		cv := &CV{T: Sel(x.T, i.T), Sort: vs}
		if vs == "Str" {
			cv.Type = types.Typ[types.String]
		}
		return cv
	}
	e.fail("cannot index %s", x.Sort)
	return nil
}

// splitArraySort splits "(Array K V)" into K and V.
func splitArraySort(s string) (string, string) {
	inner := strings.TrimSuffix(strings.TrimPrefix(s, "(Array "), ")")
	depth := 0
	for i, c := range inner {
		switch c {
		case '(':
			depth++
		case ')':
			depth--
		case ' ':
			if depth == 0 {
				return inner[:i], inner[i+1:]
			}
		}
	}
	return inner, ""
}

func (e *CEnv) binary(n *EBinary) *CV {
	switch n.Op {
	case "&&", "||", "==>", "<==>":
		// `inscope(x) ==> ...`: where x does not resolve the clause says nothing (and its
		// right-hand side is not evaluated)
		if n.Op == "==>" {
			if a := e.eval(n.X); isFalse(a.T) {
				return &CV{T: tTrue, Sort: "Bool"}
			}
		}
		a, b := e.eval(n.X), e.eval(n.Y)
		e.want(a, "Bool")
		e.want(b, "Bool")
		switch n.Op {
		case "&&":
			return &CV{T: And(a.T, b.T), Sort: "Bool"}
		case "||":
			return &CV{T: Or(a.T, b.T), Sort: "Bool"}
		case "==>":
			return &CV{T: Imp(a.T, b.T), Sort: "Bool"}
		default:
			return &CV{T: Eq(a.T, b.T), Sort: "Bool"}
		}
	case "==", "!=":
		a, b := e.eval(n.X), e.eval(n.Y)
		e.unify(a, b)
		if n.Op == "==" {
			return &CV{T: Eq(a.T, b.T), Sort: "Bool"}
		}
		return &CV{T: Not(Eq(a.T, b.T)), Sort: "Bool"}
	case "<", "<=", ">", ">=":
		a, b := e.eval(n.X), e.eval(n.Y)
		e.want(a, "Int")
		e.want(b, "Int")
		return &CV{T: A(n.Op, a.T, b.T), Sort: "Bool"}
	case "+", "-", "*":
		a, b := e.eval(n.X), e.eval(n.Y)
		if n.Op == "+" && a.Sort == "Str" && b.Sort == "Str" {
			return &CV{T: A("scat", a.T, b.T), Sort: "Str", Type: types.Typ[types.String]}
		}
		e.want(a, "Int")
		e.want(b, "Int")
		return &CV{T: A(n.Op, a.T, b.T), Sort: "Int"}
	case "/":
		a, b := e.eval(n.X), e.eval(n.Y)
		e.want(a, "Int")
		e.want(b, "Int")
		return &CV{T: A("div", a.T, b.T), Sort: "Int"}
	case "%":
		a, b := e.eval(n.X), e.eval(n.Y)
		e.want(a, "Int")
		e.want(b, "Int")
		return &CV{T: A("mod", a.T, b.T), Sort: "Int"}
	case "in":
		a, b := e.eval(n.X), e.eval(n.Y)
		if b.Type != nil {
			if mt, ok := types.Unalias(b.Type).Underlying().(*types.Map); ok {
				ks := e.ft.sortOf(mt.Key())
				if a.Sort != ks {
					e.fail("map key sort mismatch")
				}
				return &CV{T: Sel(Sel(e.region("MK."+ks), b.T), a.T), Sort: "Bool"}
			}
		}
		if strings.HasPrefix(b.Sort, "(Array ") {
			ks, vs := splitArraySort(b.Sort)
			if vs != "Bool" || ks != a.Sort {
				e.fail("`in` needs a set (Array %s Bool), got %s", a.Sort, b.Sort)
			}
			return &CV{T: Sel(b.T, a.T), Sort: "Bool"}
		}
		e.fail("`in` on %s", b.Sort)
	}
	e.fail("unsupported operator %s", n.Op)
	return nil
}

func (e *CEnv) call(n *ECall) *CV {
	ft := e.ft
	switch n.Fn {
	case "len":
		x := e.eval(n.Args[0])
		if x.Sort == "Ref" {
			ft.noteRefSource(x.T)
		}
		if x.Type != nil {
			switch u := types.Unalias(x.Type).Underlying().(type) {
			case *types.Slice:
				if isByte(u.Elem()) {
					return &CV{T: A("blen", Sel(e.region("H.Bytes"), x.T)), Sort: "Int"}
				}
				return &CV{T: A("rlen", x.T), Sort: "Int"}
			case *types.Basic:
				return &CV{T: A("slen", x.T), Sort: "Int"}
			case *types.Map:
				return &CV{T: Sel(e.region("MN"), x.T), Sort: "Int"}
			case *types.Array:
				return &CV{T: Int(u.Len()), Sort: "Int"}
			}
		}
		if x.Sort == "Str" {
			return &CV{T: A("slen", x.T), Sort: "Int"}
		}
		if x.Sort == "Bytes" {
			return &CV{T: A("blen", x.T), Sort: "Int"}
		}
		e.fail("len of %s", x.Sort)
	case "seq":
		// contents of a slice as (Array Int Elem)
		x := e.eval(n.Args[0])
		if x.Type != nil {
			if u, ok := types.Unalias(x.Type).Underlying().(*types.Slice); ok && !isByte(u.Elem()) {
				es := ft.sortOf(u.Elem())
				return &CV{T: Sel(e.region("HS."+es), x.T), Sort: "(Array Int " + es + ")"}
			}
		}
		e.fail("seq of non-slice")
	case "bytes":
		x := e.eval(n.Args[0])
		if x.Type != nil && isByteSlice(x.Type) {
			return &CV{T: Sel(e.region("H.Bytes"), x.T), Sort: "Bytes"}
		}
		if x.Sort == "Bytes" {
			return x
		}
		e.fail("bytes of non-[]byte")
	case "mapkeys", "mapvals":
		x := e.eval(n.Args[0])
		if x.Type != nil {
			if mt, ok := types.Unalias(x.Type).Underlying().(*types.Map); ok {
				ks, vs := ft.sortOf(mt.Key()), ft.sortOf(mt.Elem())
				if n.Fn == "mapkeys" {
					return &CV{T: Sel(e.region("MK."+ks), x.T), Sort: "(Array " + ks + " Bool)"}
				}
				return &CV{T: Sel(e.region("MV."+ks+"->"+vs), x.T), Sort: "(Array " + ks + " " + vs + ")"}
			}
		}
		e.fail("%s of non-map", n.Fn)
	case "upd":
		// upd(array, key, value): functional update of a ghost array
		a, k, v := e.eval(n.Args[0]), e.eval(n.Args[1]), e.eval(n.Args[2])
		if !strings.HasPrefix(a.Sort, "(Array ") {
			e.fail("upd on non-array %s", a.Sort)
		}
		ks, vs := splitArraySort(a.Sort)
		if k.Sort != ks || v.Sort != vs {
			e.fail("upd: expected (%s, %s), got (%s, %s)", ks, vs, k.Sort, v.Sort)
		}
		return &CV{T: Sto(a.T, k.T, v.T), Sort: a.Sort}
	case "setfield":
		// setfield(structValue, "Field", value)
		x, v := e.eval(n.Args[0]), e.eval(n.Args[2])
		fn, ok := n.Args[1].(*EStr)
		if !ok {
			e.fail("setfield needs a field name string")
		}
		f := ft.e.sorts.Field(x.Sort, fn.Val)
		if f == nil {
			e.fail("no field %s in %s", fn.Val, x.Sort)
		}
		if v.Sort == "Nil" {
			v.T, v.Sort = e.nilOf(f.Sort), f.Sort
		}
		if v.Sort != f.Sort {
			e.fail("setfield: field %s has sort %s, got %s", fn.Val, f.Sort, v.Sort)
		}
		return &CV{T: ft.e.sorts.UpdField(x.Sort, x.T, fn.Val, v.T), Sort: x.Sort, Type: x.Type}
	case "heap":
		// heap("HS.cashu.Proof"): the current contents of a memory region
		id, ok := n.Args[0].(*EStr)
		if !ok {
			e.fail("heap(\"region\")")
		}
		return &CV{T: e.region(id.Val), Sort: ft.regionSort(id.Val)}
	case "local":
		// local(name, Type): the local variable `name` of that type (when several
		// locals share a source name)
		id, ok := n.Args[0].(*EIdent)
		if !ok || len(n.Args) != 2 || e.body == nil {
			e.fail("local(name, Type)")
		}
		want := e.typeExpr(n.Args[1])
		for _, blk := range e.body.fn.Blocks {
			for _, in := range blk.Instrs {
				al, ok := in.(*ssa.Alloc)
				if !ok || al.Comment != id.Name {
					continue
				}
				pt := types.Unalias(al.Type()).Underlying().(*types.Pointer).Elem()
				if !types.Identical(types.Unalias(pt), types.Unalias(want)) {
					continue
				}
				v, ok := e.body.vals[al]
				if !ok || v.Addr == nil {
					continue
				}
				return &CV{T: ft.load(e.cur, v.Addr), Type: pt, Sort: ft.sortOf(pt)}
			}
		}
		e.fail("unknown identifier %q (no local of that type)", id.Name)
	case "inscope":
		// inscope(name): the local resolves at this program point
		ok := false
		if id, isId := n.Args[0].(*EIdent); isId {
			func() {
				defer func() {
					if r := recover(); r != nil {
						if _, isC := r.(cerr); !isC {
							panic(r)
						}
					}
				}()
				e.eval(id)
				ok = true
			}()
		}
		if ok {
			return &CV{T: tTrue, Sort: "Bool"}
		}
		return &CV{T: tFalse, Sort: "Bool"}
	case "typeis":
		// typeis(x, pkg.Type) / typeis(x, ptr(pkg.Type)): dynamic type test on an interface
		x := e.eval(n.Args[0])
		e.want(x, "Iface")
		t := e.typeExpr(n.Args[1])
		return &CV{T: Eq(A("itag", x.T), Int(int64(ft.e.sorts.Tag(t)))), Sort: "Bool"}
	case "unbox":
		x := e.eval(n.Args[0])
		e.want(x, "Iface")
		t := e.typeExpr(n.Args[1])
		_, unbox := ft.e.sorts.Box(t)
		return &CV{T: A(unbox, x.T), Type: t, Sort: ft.sortOf(t)}
	case "box":
		x := e.eval(n.Args[0])
		t := x.Type
		if len(n.Args) == 2 {
			t = e.typeExpr(n.Args[1])
			if x.Sort != ft.sortOf(t) {
				e.fail("box: value of sort %s is not a %s", x.Sort, t)
			}
		}
		if t == nil {
			e.fail("box needs a Go-typed value (or a type as second argument)")
		}
		box, _ := ft.e.sorts.Box(t)
		return &CV{T: A(box, x.T), Sort: "Iface"}
	}
	// spec function
	f, ok := ft.e.prelude.Fns[n.Fn]
	if !ok {
		e.fail("unknown function %q", n.Fn)
	}
	if len(f.Args) != len(n.Args) {
		e.fail("%s expects %d arguments", n.Fn, len(f.Args))
	}
	ft.usedSpec[n.Fn] = true
	args := make([]*T, len(n.Args))
	for i, a := range n.Args {
		v := e.eval(a)
		if v.Sort == "Nil" {
			v.T, v.Sort = e.nilOf(f.Args[i]), f.Args[i]
		}
		if v.Sort != f.Args[i] {
			e.fail("argument %d of %s: expected %s, got %s", i+1, n.Fn, f.Args[i], v.Sort)
		}
		args[i] = v.T
	}
	cv := &CV{T: A(n.Fn, args...), Sort: f.Res}
	if f.Res == "Str" {
		cv.Type = types.Typ[types.String]
	}
	return cv
}

// typeExpr resolves `pkg.Type` or `ptr(pkg.Type)` to a Go type.
func (e *CEnv) typeExpr(x Expr) types.Type {
	switch n := x.(type) {
	case *ECall:
		if n.Fn == "ptr" && len(n.Args) == 1 {
			return types.NewPointer(e.typeExpr(n.Args[0]))
		}
		if n.Fn == "slice" && len(n.Args) == 1 {
			return types.NewSlice(e.typeExpr(n.Args[0]))
		}
		if n.Fn == "mapof" && len(n.Args) == 2 {
			return types.NewMap(types.Unalias(e.typeExpr(n.Args[0])), types.Unalias(e.typeExpr(n.Args[1])))
		}
	case *ESel:
		p := e.eval(n.X)
		if p.Pkg != nil {
			if obj, ok := p.Pkg.Scope().Lookup(n.Name).(*types.TypeName); ok {
				return obj.Type()
			}
		}
	case *EIdent:
		if n.Name == "any" {
			// the empty interface as the code spells it (interface{}): type tags are keyed by the printed type
			return types.NewInterfaceType(nil, nil).Complete()
		}
		if e.pkg != nil {
			if obj, ok := e.pkg.Scope().Lookup(n.Name).(*types.TypeName); ok {
				return obj.Type()
			}
		}
		if obj, ok := types.Universe.Lookup(n.Name).(*types.TypeName); ok {
			return obj.Type()
		}
	}
	e.fail("not a type expression")
	return nil
}

// debugVar resolves a source-level local variable name through the DebugRef
// pseudo-instructions: among the SSA values the name refers to, the one whose
// definition dominates the current point and is closest to it.
func (e *CEnv) debugVar(name string) *CV {
	b := e.body
	var best ssa.Value
	var bestBlk *ssa.BasicBlock
	for _, blk := range b.fn.Blocks {
		for _, in := range blk.Instrs {
			d, ok := in.(*ssa.DebugRef)
			if !ok || d.IsAddr || d.Object() == nil || d.Object().Name() != name {
				continue
			}
			if _, isConst := d.X.(*ssa.Const); isConst {
				continue
			}
			db := defBlock(d.X)
			if db == nil {
				if _, isParam := d.X.(*ssa.Parameter); !isParam {
					continue
				}
				db = b.fn.Blocks[0]
			}
			if e.at != nil && !db.Dominates(e.at) {
				continue
			}
			if _, translated := b.vals[d.X]; !translated {
				continue
			}
			if best == nil || bestBlk.Dominates(db) {
				best, bestBlk = d.X, db
			}
		}
	}
	if best == nil {
		return nil
	}
	v := b.vals[best]
	if v.Tuple != nil {
		return nil
	}
	return &CV{T: b.refT(v), Type: best.Type(), Sort: e.ft.sortOf(best.Type()), Addr: v.Addr}
}

// noteRefSource records where a reference that a contract dereferences was
// loaded from (a field of a heap cell, or an element of a slice of
// references), so that allocations can be declared distinct from every
// reference stored there (see freshRef).
func (ft *FT) noteRefSource(t *T) {
	if t == nil || t.Args == nil {
		return
	}
	regionOf := func(r *T) string {
		if r.Args != nil {
			return ""
		}
		if i := strings.LastIndex(r.Op, "@"); i > 0 {
			return r.Op[:i]
		}
		return ""
	}
	// (sel ... (select REGION x))
	cur := t
	var sels []string
	for cur.Args != nil && len(cur.Args) == 1 && cur.Op != "select" {
		sels = append([]string{cur.Op}, sels...)
		cur = cur.Args[0]
	}
	if cur.Op == "select" && len(cur.Args) == 2 {
		inner := cur.Args[0]
		if reg := regionOf(inner); reg != "" && len(sels) > 0 {
			ft.refSources[reg+"|"+strings.Join(sels, "|")] = true
			return
		}
		// (sel ... (select (select HS.X x) i))
		if inner.Op == "select" && len(inner.Args) == 2 && len(sels) > 0 {
			if reg := regionOf(inner.Args[0]); reg != "" {
				ft.refSources[reg+"|[]|"+strings.Join(sels, "|")] = true
				return
			}
		}
		// (select (select HS.Ref x) i)
		if inner.Op == "select" && len(inner.Args) == 2 && len(sels) == 0 {
			if reg := regionOf(inner.Args[0]); reg != "" {
				ft.refSources[reg+"|[]"] = true
			}
		}
	}
}
