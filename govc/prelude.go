package main

import (
	"fmt"
	"os"
	"strconv"
	"strings"
)

// ---------------------------------------------------------------------------
// S-expressions (only used to read the prelude)

type SX struct {
	Atom string
	List []*SX
	IsL  bool
}

func (s *SX) String() string {
	if !s.IsL {
		return s.Atom
	}
	parts := make([]string, len(s.List))
	for i, c := range s.List {
		parts[i] = c.String()
	}
	return "(" + strings.Join(parts, " ") + ")"
}

func (s *SX) ToTerm() *T {
	if !s.IsL {
		return L(s.Atom)
	}
	if len(s.List) == 0 {
		return L("()")
	}
	head := s.List[0]
	// quantifiers / let / annotations are kept as raw text leaves
	if !head.IsL && (head.Atom == "forall" || head.Atom == "exists" || head.Atom == "let" || head.Atom == "!") {
		return L(s.String())
	}
	args := make([]*T, 0, len(s.List)-1)
	for _, c := range s.List[1:] {
		args = append(args, c.ToTerm())
	}
	return A(head.String(), args...)
}

func parseSX(src string) ([]*SX, error) {
	var out []*SX
	pos := 0
	var parse func() (*SX, error)
	skip := func() {
		for pos < len(src) {
			c := src[pos]
			if c == ';' {
				for pos < len(src) && src[pos] != '\n' {
					pos++
				}
			} else if c == ' ' || c == '\t' || c == '\n' || c == '\r' {
				pos++
			} else {
				break
			}
		}
	}
	parse = func() (*SX, error) {
		skip()
		if pos >= len(src) {
			return nil, fmt.Errorf("unexpected eof")
		}
		if src[pos] == '(' {
			pos++
			n := &SX{IsL: true}
			for {
				skip()
				if pos >= len(src) {
					return nil, fmt.Errorf("unbalanced parens")
				}
				if src[pos] == ')' {
					pos++
					return n, nil
				}
				c, err := parse()
				if err != nil {
					return nil, err
				}
				n.List = append(n.List, c)
			}
		}
		start := pos
		if src[pos] == '|' {
			pos++
			for pos < len(src) && src[pos] != '|' {
				pos++
			}
			pos++
			return &SX{Atom: src[start:pos]}, nil
		}
		if src[pos] == '"' {
			pos++
			for pos < len(src) && src[pos] != '"' {
				pos++
			}
			pos++
			return &SX{Atom: src[start:pos]}, nil
		}
		for pos < len(src) && !strings.ContainsRune(" \t\n\r()", rune(src[pos])) {
			pos++
		}
		return &SX{Atom: src[start:pos]}, nil
	}
	for {
		skip()
		if pos >= len(src) {
			return out, nil
		}
		n, err := parse()
		if err != nil {
			return nil, err
		}
		out = append(out, n)
	}
}

// ---------------------------------------------------------------------------
// Prelude

type SpecFn struct {
	Name    string
	Args    []string // sorts
	ArgName []string
	Res     string
	Unfold  *T // body over ArgName, or nil
	Module  string
}

type PItem struct {
	Text    string
	Module  string
	Decl    string          // declared symbol, "" for axioms
	Symbols map[string]bool // symbols mentioned
}

type Prelude struct {
	Items      []*PItem
	Fns        map[string]*SpecFn
	Ghosts     map[string]string // ghost var -> sort
	GhostOrder []string
	Consts     map[string]string // declared constants -> sort
	ModDeps    map[string][]string
	AfterSorts map[string]bool     // modules that must be emitted after the program datatypes
	GoTypes    []string            // Go types whose sorts the prelude mentions
	ExtraDecl  map[string]string   // constructor/selector symbol -> module
	Attach     map[string][]string // module -> axiom modules attached to it (left out of lemma queries)
	Monotone   map[string]bool     // ghost counters that never decrease
	Proved     map[string]bool     // axiom modules justified by lemmas
	LemmaOnly  map[string]bool     // axiom modules only included in lemma queries
	Grows      map[string]bool     // ghost sets that only grow
	StrLits    map[string]string   // string literal value -> prelude constant
	AppendSum  map[string][]string // element sort -> prefix-sum functions additive over append
}

func LoadPrelude(paths ...string) (*Prelude, error) {
	p := &Prelude{Fns: map[string]*SpecFn{}, Ghosts: map[string]string{}, Consts: map[string]string{}, ModDeps: map[string][]string{}, AfterSorts: map[string]bool{}, ExtraDecl: map[string]string{}, Attach: map[string][]string{}, Monotone: map[string]bool{}, Proved: map[string]bool{}, LemmaOnly: map[string]bool{}, Grows: map[string]bool{}, StrLits: map[string]string{}, AppendSum: map[string][]string{}}
	for _, path := range paths {
		data, err := os.ReadFile(path)
		if err != nil {
			return nil, err
		}
		// split into module chunks on ";@module" lines
		module := "core"
		var chunk strings.Builder
		flush := func() error {
			src := chunk.String()
			chunk.Reset()
			sxs, err := parseSX(src)
			if err != nil {
				return fmt.Errorf("%s (module %s): %v", path, module, err)
			}
			for _, sx := range sxs {
				if err := p.addItem(sx, module); err != nil {
					return fmt.Errorf("%s (module %s): %v", path, module, err)
				}
			}
			return nil
		}
		for _, ln := range strings.Split(string(data), "\n") {
			s := strings.TrimSpace(ln)
			if strings.HasPrefix(s, ";@module") {
				if err := flush(); err != nil {
					return nil, err
				}
				f := strings.Fields(strings.TrimPrefix(s, ";@module"))
				module = f[0]
				for _, d := range f[1:] {
					p.ModDeps[module] = append(p.ModDeps[module], d)
				}
				continue
			}
			if strings.HasPrefix(s, ";@appendsum") {
				f := strings.Fields(strings.TrimPrefix(s, ";@appendsum"))
				if len(f) == 2 {
					p.AppendSum[f[0]] = append(p.AppendSum[f[0]], f[1])
				}
				continue
			}
			if strings.HasPrefix(s, ";@strlit") {
				f := strings.SplitN(strings.TrimSpace(strings.TrimPrefix(s, ";@strlit")), " ", 2)
				if len(f) == 2 {
					v, err := strconv.Unquote(strings.TrimSpace(f[1]))
					if err == nil {
						p.StrLits[v] = f[0]
					}
				}
				continue
			}
			if strings.HasPrefix(s, ";@grows") {
				for _, g := range strings.Fields(strings.TrimPrefix(s, ";@grows")) {
					p.Grows[g] = true
				}
				continue
			}
			if strings.HasPrefix(s, ";@monotone") {
				for _, g := range strings.Fields(strings.TrimPrefix(s, ";@monotone")) {
					p.Monotone[g] = true
				}
				continue
			}
			if strings.HasPrefix(s, ";@attach-lemmas") {
				// axioms only needed by prelude-level lemmas (e.g. AC group laws,
				// which flood function-level queries with instances)
				for _, m := range strings.Fields(strings.TrimPrefix(s, ";@attach-lemmas")) {
					p.Attach[m] = append(p.Attach[m], module)
					p.LemmaOnly[module] = true
				}
				continue
			}
			if strings.HasPrefix(s, ";@attach-proved") {
				// axioms justified by base/step lemmas: left out of lemma queries
				for _, m := range strings.Fields(strings.TrimPrefix(s, ";@attach-proved")) {
					p.Attach[m] = append(p.Attach[m], module)
					p.Proved[module] = true
				}
				continue
			}
			if strings.HasPrefix(s, ";@attach") {
				for _, m := range strings.Fields(strings.TrimPrefix(s, ";@attach")) {
					p.Attach[m] = append(p.Attach[m], module)
				}
				continue
			}
			if strings.HasPrefix(s, ";@gotype") {
				p.GoTypes = append(p.GoTypes, strings.Fields(strings.TrimPrefix(s, ";@gotype"))...)
				continue
			}
			if strings.HasPrefix(s, ";@ghost") {
				f := strings.SplitN(strings.TrimSpace(strings.TrimPrefix(s, ";@ghost")), " ", 2)
				p.Ghosts[f[0]] = strings.TrimSpace(f[1])
				p.GhostOrder = append(p.GhostOrder, f[0])
				continue
			}
			chunk.WriteString(ln)
			chunk.WriteString("\n")
		}
		if err := flush(); err != nil {
			return nil, err
		}
	}
	return p, nil
}

func (p *Prelude) addItem(sx *SX, module string) error {
	if !sx.IsL || len(sx.List) == 0 {
		return fmt.Errorf("bad prelude item %s", sx)
	}
	it := &PItem{Text: sx.String(), Module: module, Symbols: map[string]bool{}}
	var collect func(s *SX)
	collect = func(s *SX) {
		if !s.IsL {
			it.Symbols[s.Atom] = true
			return
		}
		for _, c := range s.List {
			collect(c)
		}
	}
	collect(sx)
	head := sx.List[0].Atom
	switch head {
	case "declare-sort":
		it.Decl = sx.List[1].Atom
	case "declare-const":
		it.Decl = sx.List[1].Atom
		p.Consts[it.Decl] = sx.List[2].String()
		p.Fns[it.Decl] = &SpecFn{Name: it.Decl, Res: sx.List[2].String(), Module: module}
	case "declare-fun":
		it.Decl = sx.List[1].Atom
		f := &SpecFn{Name: it.Decl, Res: sx.List[3].String(), Module: module}
		for _, a := range sx.List[2].List {
			f.Args = append(f.Args, a.String())
		}
		p.Fns[it.Decl] = f
	case "define-fun":
		it.Decl = sx.List[1].Atom
		f := &SpecFn{Name: it.Decl, Res: sx.List[3].String(), Module: module}
		for _, a := range sx.List[2].List {
			f.ArgName = append(f.ArgName, a.List[0].Atom)
			f.Args = append(f.Args, a.List[1].String())
		}
		p.Fns[it.Decl] = f
	case "define-unfold":
		// (define-unfold name ((a S) ...) R body): uninterpreted + unfold rule
		it.Decl = sx.List[1].Atom
		f := &SpecFn{Name: it.Decl, Res: sx.List[3].String(), Module: module}
		var sorts []string
		for _, a := range sx.List[2].List {
			f.ArgName = append(f.ArgName, a.List[0].Atom)
			f.Args = append(f.Args, a.List[1].String())
			sorts = append(sorts, a.List[1].String())
		}
		f.Unfold = sx.List[4].ToTerm()
		p.Fns[it.Decl] = f
		it.Text = fmt.Sprintf("(declare-fun %s (%s) %s)", it.Decl, strings.Join(sorts, " "), f.Res)
	case "declare-datatypes":
		// ((Name 0)) (((ctor (sel S)...)))
		it.Decl = sx.List[1].List[0].List[0].Atom
		for _, ctor := range sx.List[2].List[0].List {
			cf := &SpecFn{Name: ctor.List[0].Atom, Res: it.Decl, Module: module}
			for _, sel := range ctor.List[1:] {
				cf.Args = append(cf.Args, sel.List[1].String())
				p.Fns[sel.List[0].Atom] = &SpecFn{Name: sel.List[0].Atom, Args: []string{it.Decl}, Res: sel.List[1].String(), Module: module}
				p.ExtraDecl[sel.List[0].Atom] = module
			}
			p.Fns[cf.Name] = cf
			p.ExtraDecl[cf.Name] = module
		}
	case "assert":
	default:
		return fmt.Errorf("unsupported prelude command %s", head)
	}
	p.Items = append(p.Items, it)
	return nil
}

// Select returns the prelude text needed for a query mentioning the given
// symbols: the core module plus every module declaring a used symbol,
// transitively through the symbols those modules mention.
func (p *Prelude) Select(used map[string]bool, lemmaMode bool) (before, after []string, mods []string) {
	declMod := map[string]string{}
	for _, it := range p.Items {
		if it.Decl != "" {
			declMod[it.Decl] = it.Module
		}
	}
	for k, m := range p.ExtraDecl {
		declMod[k] = m
	}
	for g := range p.Ghosts {
		_ = g
	}
	active := map[string]bool{"core": true}
	work := []string{"core"}
	addSyms := func(syms map[string]bool) {
		for s := range syms {
			if m, ok := declMod[s]; ok && !active[m] {
				active[m] = true
				work = append(work, m)
			}
		}
	}
	addSyms(used)
	for len(work) > 0 {
		m := work[len(work)-1]
		work = work[:len(work)-1]
		for _, d := range p.Attach[m] {
			if lemmaMode && p.Proved[d] {
				continue
			}
			if !lemmaMode && p.LemmaOnly[d] {
				continue
			}
			if !active[d] {
				active[d] = true
				work = append(work, d)
			}
		}
		for _, d := range p.ModDeps[m] {
			if !active[d] {
				active[d] = true
				work = append(work, d)
			}
		}
		for _, it := range p.Items {
			if it.Module == m {
				addSyms(it.Symbols)
			}
		}
	}
	for _, it := range p.Items {
		if !active[it.Module] {
			continue
		}
		if it.Module == "core" {
			before = append(before, it.Text)
		} else {
			after = append(after, it.Text)
		}
	}
	for m := range active {
		mods = append(mods, m)
	}
	return
}
