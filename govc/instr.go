package main

import (
	"fmt"
	"go/token"
	"go/types"
	"strings"

	"golang.org/x/tools/go/ssa"
)

func (b *Body) instr(in ssa.Instruction, blk *ssa.BasicBlock, reach *T, st State) {
	ft := b.ft
	S := ft.e.sorts
	switch x := in.(type) {
	case *ssa.DebugRef:
	case *ssa.Alloc:
		b.alloc(x, blk, st)
	case *ssa.Store:
		av := b.val(x.Addr)
		a := ft.addrOf(av)
		if a == nil {
			ft.abstraction("store through untracked pointer")
			return
		}
		b.nilCheck(av, reach, x.Pos())
		b.store(st, a, b.refT(b.val(x.Val)), blk)
	case *ssa.UnOp:
		b.unop(x, blk, reach, st)
	case *ssa.BinOp:
		b.binop(x, reach)
	case *ssa.FieldAddr:
		xv := b.val(x.X)
		b.nilCheck(xv, reach, x.Pos())
		a := ft.addrOf(xv)
		pt := types.Unalias(x.X.Type()).Underlying().(*types.Pointer).Elem()
		stt := types.Unalias(pt).Underlying().(*types.Struct)
		f := stt.Field(x.Field)
		na := *a
		na.Path = append(append([]PStep{}, a.Path...), PStep{Field: f.Name(), Sort: ft.sortOf(f.Type()), Type: f.Type()})
		// opaque struct: fall back to an untracked cell
		cur := a.RootSort
		if len(a.Path) > 0 {
			cur = a.Path[len(a.Path)-1].Sort
		}
		if S.Info(cur) == nil {
			ft.abstraction("field address into opaque struct " + cur)
			b.vals[x] = &Val{T: ft.fresh(b.name(x), "Ref"), Type: x.Type()}
			return
		}
		b.vals[x] = &Val{Type: x.Type(), Addr: &na}
	case *ssa.Field:
		xv := b.val(x.X)
		stt := types.Unalias(x.X.Type()).Underlying().(*types.Struct)
		f := stt.Field(x.Field)
		so := ft.sortOf(x.X.Type())
		sf := S.Field(so, f.Name())
		if sf == nil {
			b.declVal(x)
			ft.abstraction("field of opaque struct " + so)
			return
		}
		b.define(x, A(sf.Sel, xv.T))
	case *ssa.IndexAddr:
		b.indexAddr(x, reach, st)
	case *ssa.Index:
		xv := b.val(x.X)
		iv := b.val(x.Index)
		switch u := types.Unalias(x.X.Type()).Underlying().(type) {
		case *types.Array:
			b.safety("index", reach, And(A("<=", Int(0), iv.T), A("<", iv.T, Int(u.Len()))), x.Pos(), "array index in range")
			if isByte(u.Elem()) {
				b.define(x, A("bat", xv.T, iv.T))
			} else {
				b.define(x, Sel(xv.T, iv.T))
			}
		default: // string (generic code)
			b.safety("index", reach, And(A("<=", Int(0), iv.T), A("<", iv.T, A("slen", xv.T))), x.Pos(), "string index in range")
			b.define(x, A("sat", xv.T, iv.T))
		}
	case *ssa.Slice:
		b.slice(x, reach, st)
	case *ssa.MakeSlice:
		lv := b.val(x.Len)
		cv := b.val(x.Cap)
		b.safety("makeslice", reach, And(A("<=", Int(0), lv.T), A("<=", lv.T, cv.T), A("<=", lv.T, L("281474976710656"))), x.Pos(), "make: 0 <= len <= cap, len <= 2^48")
		ref := b.freshRef(x)
		ft.fact(Eq(A("rlen", ref), lv.T))
		ft.fact(Eq(A("rcap", ref), cv.T))
		el := types.Unalias(x.Type()).Underlying().(*types.Slice).Elem()
		if isByte(el) {
			ft.setRegion(st, "H.Bytes", Sto(ft.region(st, "H.Bytes"), ref, A("bzeros", lv.T)))
		} else {
			es := ft.sortOf(el)
			reg := "HS." + es
			ft.setRegion(st, reg, Sto(ft.region(st, reg), ref, ft.constArray("Int", es, S.Zero(el))))
		}
	case *ssa.MakeMap:
		ref := b.freshRef(x)
		mt := types.Unalias(x.Type()).Underlying().(*types.Map)
		ks, vs := ft.sortOf(mt.Key()), ft.sortOf(mt.Elem())
		mk := "MK." + ks
		ft.setRegion(st, mk, Sto(ft.region(st, mk), ref, ft.constArray(ks, "Bool", tFalse)))
		ft.setRegion(st, "MN", Sto(ft.region(st, "MN"), ref, Int(0)))
		_ = vs
	case *ssa.MapUpdate:
		mv := b.val(x.Map)
		kv := b.val(x.Key)
		vv := b.val(x.Value)
		mt := types.Unalias(x.Map.Type()).Underlying().(*types.Map)
		ks, vs := ft.sortOf(mt.Key()), ft.sortOf(mt.Elem())
		b.safety("nilmap", reach, Not(Eq(mv.T, L("nil"))), x.Pos(), "assignment to entry in nil map")
		mk, mvr := "MK."+ks, "MV."+ks+"->"+vs
		has := Sel(Sel(ft.region(st, mk), mv.T), kv.T)
		ft.setRegion(st, "MN", Sto(ft.region(st, "MN"), mv.T, A("+", Sel(ft.region(st, "MN"), mv.T), Ite(has, Int(0), Int(1)))))
		ft.setRegion(st, mk, Sto(ft.region(st, mk), mv.T, Sto(Sel(ft.region(st, mk), mv.T), kv.T, tTrue)))
		ft.setRegion(st, mvr, Sto(ft.region(st, mvr), mv.T, Sto(Sel(ft.region(st, mvr), mv.T), kv.T, b.refT(vv))))
		b.recordWrite(blk, mk, x.Map)
		b.recordWrite(blk, mvr, x.Map)
		b.recordWrite(blk, "MN", x.Map)
	case *ssa.Lookup:
		xv := b.val(x.X)
		kv := b.val(x.Index)
		if mt, ok := types.Unalias(x.X.Type()).Underlying().(*types.Map); ok {
			ks, vs := ft.sortOf(mt.Key()), ft.sortOf(mt.Elem())
			has := Sel(Sel(ft.region(st, "MK."+ks), xv.T), kv.T)
			raw := Sel(Sel(ft.region(st, "MV."+ks+"->"+vs), xv.T), kv.T)
			val := Ite(has, raw, S.Zero(mt.Elem()))
			if x.CommaOk {
				tv := b.declVal(x)
				ft.fact(Eq(tv.Tuple[0].T, val))
				ft.fact(Eq(tv.Tuple[1].T, has))
			} else {
				b.define(x, val)
			}
			ft.fact(ft.e.sorts.TypeFacts(raw, mt.Elem()))
		} else { // string index
			b.safety("index", reach, And(A("<=", Int(0), kv.T), A("<", kv.T, A("slen", xv.T))), x.Pos(), "string index in range")
			b.define(x, A("sat", xv.T, kv.T))
		}
	case *ssa.Range:
		b.rangeInstr(x, st)
	case *ssa.Next:
		b.next(x, blk, reach, st)
	case *ssa.Extract:
		tv := b.val(x.Tuple)
		if tv.Tuple == nil || x.Index >= len(tv.Tuple) {
			b.declVal(x)
			return
		}
		b.vals[x] = tv.Tuple[x.Index]
	case *ssa.MakeInterface:
		xv := b.val(x.X)
		box, unbox := S.Box(x.X.Type())
		t := A(box, b.refT(xv))
		v := b.define(x, t)
		ft.fact(Eq(A(unbox, v.T), b.refT(xv)))
		ft.fact(Eq(A("itag", v.T), Int(int64(S.Tag(x.X.Type())))))
	case *ssa.ChangeInterface:
		b.vals[x] = &Val{T: b.val(x.X).T, Type: x.Type()}
	case *ssa.ChangeType:
		xv := b.val(x.X)
		b.vals[x] = &Val{T: xv.T, Type: x.Type(), Addr: xv.Addr, Clos: xv.Clos}
	case *ssa.TypeAssert:
		xv := b.val(x.X)
		var okT, valT *T
		if types.IsInterface(x.AssertedType) {
			okT = ft.fresh("ta.ok", "Bool")
			ft.fact(Imp(okT, Not(Eq(xv.T, L("nil.Iface")))))
			valT = xv.T
		} else {
			_, unbox := S.Box(x.AssertedType)
			okT = Eq(A("itag", xv.T), Int(int64(S.Tag(x.AssertedType))))
			valT = A(unbox, xv.T)
		}
		if x.CommaOk {
			tv := b.declVal(x)
			ft.fact(Eq(tv.Tuple[1].T, okT))
			ft.fact(Imp(okT, Eq(tv.Tuple[0].T, valT)))
			ft.fact(Imp(Not(okT), Eq(tv.Tuple[0].T, S.Zero(x.AssertedType))))
		} else {
			b.safety("typeassert", reach, okT, x.Pos(), "type assertion holds")
			b.define(x, valT)
		}
	case *ssa.Convert:
		b.convert(x, st)
	case *ssa.MultiConvert:
		b.declVal(x)
		ft.abstraction("MultiConvert")
	case *ssa.SliceToArrayPointer:
		b.declVal(x)
		ft.abstraction("SliceToArrayPointer")
	case *ssa.MakeClosure:
		ref := ft.fresh(b.name(x), "Ref")
		ft.fact(Not(Eq(ref, L("nil"))))
		cl := &Closure{Fn: x.Fn.(*ssa.Function)}
		for _, bv := range x.Bindings {
			cl.Bindings = append(cl.Bindings, b.val(bv))
		}
		b.vals[x] = &Val{T: ref, Type: x.Type(), Clos: cl}
	case *ssa.MakeChan:
		b.freshRef(x)
	case *ssa.Select:
		sv := b.declVal(x)
		if x.Blocking && len(sv.Tuple) > 0 {
			ft.fact(And(A("<=", Int(0), sv.Tuple[0].T), A("<", sv.Tuple[0].T, Int(int64(len(x.States))))))
		}
		b.yield(blk, st)
		ft.abstraction("select (yield point: ghost state arbitrary afterwards, received values arbitrary)")
	case *ssa.Send:
		b.yield(blk, st)
		ft.abstraction("channel send (yield point: ghost state arbitrary afterwards)")
	case *ssa.Call:
		b.call(x, &x.Call, blk, reach, st, x.Pos())
	case *ssa.Go:
		b.goStmt(x, blk, reach, st)
	case *ssa.Defer:
		b.defers = append(b.defers, x)
	case *ssa.RunDefers:
		b.runDefers(blk, reach, st)
	case *ssa.Jump:
		b.edge[[2]int{blk.Index, 0}] = reach
	case *ssa.If:
		c := b.val(x.Cond).T
		b.edge[[2]int{blk.Index, 0}] = And(reach, c)
		b.edge[[2]int{blk.Index, 1}] = And(reach, Not(c))
	case *ssa.Return:
		ri := &retInfo{reach: reach, state: st.clone(), pos: x.Pos(), blockIx: blk.Index}
		for _, r := range x.Results {
			ri.results = append(ri.results, b.val(r))
		}
		b.rets = append(b.rets, ri)
		if ft.con != nil && len(ft.con.Boundary) > 0 && b == ft.top {
			b.boundary("return", reach, st, x.Pos())
		}
	case *ssa.Panic:
		if ft.con == nil || !ft.con.MayPanic {
			b.safety("panic", reach, tFalse, x.Pos(), "explicit panic unreachable")
		}
	default:
		if v, ok := in.(ssa.Value); ok {
			b.declVal(v)
		}
		ft.abstraction(fmt.Sprintf("unsupported instruction %T", in))
	}
}

func (b *Body) freshRef(v ssa.Value) *T {
	older := b.olderRefs(v)
	x := b.declVal(v)
	b.markFresh(x.T, older)
	return x.T
}

// olderRefs lists every reference computed so far (they designate objects
// older than an allocation happening now).
func (b *Body) olderRefs(exclude ssa.Value) []*T {
	ft := b.ft
	var older []*T
	seen := map[string]bool{}
	for bb := b; bb != nil; bb = bb.parent {
		for ov, val := range bb.vals {
			if val == nil || val.T == nil || val.Tuple != nil || ov == exclude {
				continue
			}
			if _, isConst := ov.(*ssa.Const); isConst {
				continue
			}
			if ft.sortOf(val.Type) != "Ref" {
				continue
			}
			k := val.T.String()
			if !seen[k] {
				seen[k] = true
				older = append(older, val.T)
			}
		}
		for _, val := range bb.tupleRefs {
			k := val.String()
			if !seen[k] {
				seen[k] = true
				older = append(older, val)
			}
		}
	}
	return older
}

// markFresh states that reference x designates a new object: non-nil,
// distinct from every older reference and from every reference stored in
// memory at the places contracts load references from.
func (b *Body) markFresh(x *T, older []*T) {
	ft := b.ft
	ft.fact(Not(Eq(x, L("nil"))))
	for _, o := range older {
		if o.String() != x.String() {
			ft.fact(Not(Eq(x, o)))
		}
	}
	ft.allocRefs = append(ft.allocRefs, x)
	st := b.curState
	if st != nil {
		for _, src := range sortedKeys(ft.refSources) {
			parts := strings.Split(src, "|")
			reg := parts[0]
			cur := ft.region(st, reg)
			xv := fmt.Sprintf("j!%d", ft.count("qv"))
			// index sort of the region (ghost tables are keyed by Str, heaps by Ref)
			ixSort := "Ref"
			if rs := ft.regionSort(reg); strings.HasPrefix(rs, "(Array ") {
				if f := strings.Fields(strings.TrimPrefix(rs, "(Array ")); len(f) > 0 && !strings.HasPrefix(f[0], "(") {
					ixSort = f[0]
				}
			}
			if len(parts) >= 2 && parts[1] == "[]" {
				jv := fmt.Sprintf("j!%d", ft.count("qv"))
				term := Sel(Sel(cur, L(xv)), L(jv))
				for _, sl := range parts[2:] {
					term = A(sl, term)
				}
				ft.fact(Forall([][2]string{{xv, ixSort}, {jv, "Int"}}, Not(Eq(term, x)), []*T{term}))
				continue
			}
			term := Sel(cur, L(xv))
			for _, sl := range parts[1:] {
				term = A(sl, term)
			}
			ft.fact(Forall([][2]string{{xv, ixSort}}, Not(Eq(term, x)), []*T{term}))
		}
	}
}

func (b *Body) alloc(x *ssa.Alloc, blk *ssa.BasicBlock, st State) {
	ft := b.ft
	ref := b.freshRef(x)
	v := b.vals[x]
	pt := types.Unalias(x.Type()).Underlying().(*types.Pointer).Elem()
	region, rs, rt, isSeq := ft.ptrRegion(x.Type())
	if isSeq {
		arr := types.Unalias(pt).Underlying().(*types.Array)
		ft.fact(Eq(A("rlen", ref), Int(arr.Len())))
		ft.fact(Eq(A("rcap", ref), Int(arr.Len())))
	}
	ft.setRegion(st, region, Sto(ft.region(st, region), ref, ft.e.sorts.ZeroSort(rs, pt)))
	v.Addr = &Addr{Region: region, RootSort: rs, RootType: rt, Base: ref, BaseVal: x, Fresh: true}
}

func (b *Body) nilCheck(v *Val, reach *T, pos token.Pos) {
	if v.Addr != nil && (v.Addr.Fresh || len(v.Addr.Path) > 0) {
		return
	}
	if _, ok := v.Addr, v.Addr != nil; ok {
		if _, isG := v.Addr.BaseVal.(*ssa.Global); isG {
			return
		}
	}
	if v.T == nil {
		return
	}
	if b.ft.nonNil[v.T.String()] {
		return
	}
	b.safety("nil", reach, Not(Eq(v.T, L("nil"))), pos, "nil pointer dereference")
}

func (b *Body) unop(x *ssa.UnOp, blk *ssa.BasicBlock, reach *T, st State) {
	ft := b.ft
	xv := b.val(x.X)
	switch x.Op {
	case token.MUL:
		// global constants
		if g, ok := x.X.(*ssa.Global); ok && ft.e.immutableGlobal(g) {
			gv := ft.e.globalConst(ft, g)
			b.vals[x] = &Val{T: gv, Type: x.Type()}
			return
		}
		a := ft.addrOf(xv)
		if a == nil {
			b.declVal(x)
			ft.abstraction("load through untracked pointer")
			return
		}
		b.nilCheck(xv, reach, x.Pos())
		v := b.define(x, ft.load(st, a))
		_ = v
	case token.NOT:
		b.define(x, Not(xv.T))
	case token.SUB:
		if ft.sortOf(x.Type()) == "Float" {
			b.define(x, A("float.neg", xv.T))
			return
		}
		b.define(x, ft.wrap(A("-", xv.T), x.Type()))
	case token.XOR:
		lo, hi, _, signed, ok := intRange(x.Type())
		_ = lo
		if ok && !signed {
			b.define(x, A("-", A("-", IntS(hi), Int(1)), xv.T))
		} else {
			b.define(x, A("-", A("-", xv.T), Int(1)))
		}
	case token.ARROW:
		b.declVal(x)
		b.yield(blk, st)
		ft.abstraction("channel receive (yield point: ghost state arbitrary afterwards, value arbitrary)")
	default:
		b.declVal(x)
		ft.abstraction("unop " + x.Op.String())
	}
}

// wrap reduces an integer term into the range of Go type t.
func (ft *FT) wrap(t *T, typ types.Type) *T {
	_, _, bits, signed, ok := intRange(typ)
	if !ok {
		return t
	}
	m := IntS(pow2[bits])
	if !signed {
		return A("mod", t, m)
	}
	h := IntS(pow2[bits-1])
	return A("-", A("mod", A("+", t, h), m), h)
}

func tdiv(a, b *T) *T {
	return Ite(A(">=", a, Int(0)),
		Ite(A(">", b, Int(0)), A("div", a, b), A("-", A("div", a, A("-", b)))),
		Ite(A(">", b, Int(0)), A("-", A("div", A("-", a), b)), A("div", A("-", a), A("-", b))))
}

func (b *Body) binop(x *ssa.BinOp, reach *T) {
	ft := b.ft
	xv, yv := b.val(x.X), b.val(x.Y)
	xt, yt := b.refT(xv), b.refT(yv)
	so := ft.sortOf(x.X.Type())
	switch x.Op {
	case token.EQL:
		b.define(x, Eq(xt, yt))
		return
	case token.NEQ:
		b.define(x, Not(Eq(xt, yt)))
		return
	}
	if so == "Float" {
		ops := map[token.Token]string{token.ADD: "float.add", token.SUB: "float.sub", token.MUL: "float.mul", token.QUO: "float.div",
			token.LSS: "float.lt", token.LEQ: "float.le", token.GTR: "float.gt", token.GEQ: "float.ge"}
		if op, ok := ops[x.Op]; ok {
			switch x.Op {
			case token.GTR:
				b.define(x, A("float.lt", yt, xt))
			case token.GEQ:
				b.define(x, A("float.le", yt, xt))
			default:
				b.define(x, A(op, xt, yt))
			}
			return
		}
		b.declVal(x)
		return
	}
	if so == "Str" {
		switch x.Op {
		case token.ADD:
			v := b.define(x, A("scat", xt, yt))
			ft.fact(Eq(A("slen", v.T), A("+", A("slen", xt), A("slen", yt))))
		case token.LSS:
			b.define(x, A("str.lt", xt, yt))
		case token.GTR:
			b.define(x, A("str.lt", yt, xt))
		case token.LEQ:
			b.define(x, Not(A("str.lt", yt, xt)))
		case token.GEQ:
			b.define(x, Not(A("str.lt", xt, yt)))
		default:
			b.declVal(x)
		}
		return
	}
	if so == "Bool" {
		switch x.Op {
		case token.AND, token.LAND:
			b.define(x, And(xt, yt))
		case token.OR, token.LOR:
			b.define(x, Or(xt, yt))
		default:
			b.declVal(x)
		}
		return
	}
	_, _, bits, signed, _ := intRange(x.X.Type())
	switch x.Op {
	case token.ADD:
		b.define(x, ft.wrap(A("+", xt, yt), x.Type()))
	case token.SUB:
		b.define(x, ft.wrap(A("-", xt, yt), x.Type()))
	case token.MUL:
		b.define(x, ft.wrap(A("*", xt, yt), x.Type()))
	case token.QUO:
		b.safety("divzero", reach, Not(Eq(yt, Int(0))), x.Pos(), "integer division by zero")
		if signed {
			b.define(x, ft.wrap(tdiv(xt, yt), x.Type()))
		} else {
			b.define(x, A("div", xt, yt))
		}
	case token.REM:
		b.safety("divzero", reach, Not(Eq(yt, Int(0))), x.Pos(), "integer division by zero")
		if signed {
			b.define(x, A("-", xt, A("*", yt, tdiv(xt, yt))))
		} else {
			b.define(x, A("mod", xt, yt))
		}
	case token.LSS:
		b.define(x, A("<", xt, yt))
	case token.LEQ:
		b.define(x, A("<=", xt, yt))
	case token.GTR:
		b.define(x, A(">", xt, yt))
	case token.GEQ:
		b.define(x, A(">=", xt, yt))
	case token.SHL:
		if _, _, _, ysigned, _ := intRange(x.Y.Type()); ysigned {
			if _, isC := x.Y.(*ssa.Const); !isC {
				b.safety("shift", reach, A(">=", yt, Int(0)), x.Pos(), "negative shift amount")
			}
		}
		b.define(x, ft.wrap(A("*", xt, A("pow2", yt)), x.Type()))
	case token.SHR:
		if _, _, _, ysigned, _ := intRange(x.Y.Type()); ysigned {
			if _, isC := x.Y.(*ssa.Const); !isC {
				b.safety("shift", reach, A(">=", yt, Int(0)), x.Pos(), "negative shift amount")
			}
		}
		b.define(x, A("div", xt, A("pow2", yt)))
	case token.AND:
		// x & (2^k - 1)  ->  x mod 2^k   (non-negative x)
		if k, ok := maskBits(x.Y); ok && !signed {
			b.define(x, A("mod", xt, IntS(k)))
		} else if k, ok := maskBits(x.X); ok && !signed {
			b.define(x, A("mod", yt, IntS(k)))
		} else {
			v := b.define(x, A("bitand", xt, yt))
			if !signed {
				ft.fact(And(A("<=", v.T, xt), A("<=", v.T, yt)))
			}
		}
	case token.OR:
		v := b.define(x, A("bitor", xt, yt))
		if !signed {
			ft.fact(And(A(">=", v.T, xt), A(">=", v.T, yt)))
		}
	case token.XOR:
		b.define(x, A("bitxor", xt, yt))
	case token.AND_NOT:
		v := b.define(x, A("bitandnot", xt, yt))
		if !signed {
			ft.fact(A("<=", v.T, xt))
		}
	default:
		b.declVal(x)
		ft.abstraction("binop " + x.Op.String())
	}
	_ = bits
}

// maskBits recognises constants of the form 2^k - 1 and returns 2^k.
func maskBits(v ssa.Value) (string, bool) {
	c, ok := v.(*ssa.Const)
	if !ok || c.Value == nil {
		return "", false
	}
	s := c.Value.ExactString()
	var n uint64
	if _, err := fmt.Sscan(s, &n); err != nil {
		return "", false
	}
	if n == ^uint64(0) {
		return pow2[64], true
	}
	if (n+1)&n == 0 {
		return fmt.Sprint(n + 1), true
	}
	return "", false
}

func (b *Body) indexAddr(x *ssa.IndexAddr, reach *T, st State) {
	ft := b.ft
	xv := b.val(x.X)
	iv := b.val(x.Index)
	switch u := types.Unalias(x.X.Type()).Underlying().(type) {
	case *types.Slice:
		b.nilOrLenCheck(xv)
		if isByte(u.Elem()) {
			a := &Addr{Region: "H.Bytes", RootSort: "Bytes", Base: xv.T, BaseVal: x.X, Fresh: xv.Addr != nil && xv.Addr.Fresh,
				Path: []PStep{{Index: iv.T, Sort: "Int", Type: u.Elem()}}}
			b.safety("index", reach, And(A("<=", Int(0), iv.T), A("<", iv.T, A("blen", Sel(ft.region(st, "H.Bytes"), xv.T)))), x.Pos(), "index in range")
			b.vals[x] = &Val{Type: x.Type(), Addr: a}
			return
		}
		es := ft.sortOf(u.Elem())
		a := &Addr{Region: "HS." + es, RootSort: "(Array Int " + es + ")", Base: xv.T, BaseVal: x.X, Fresh: xv.Addr != nil && xv.Addr.Fresh,
			Path: []PStep{{Index: iv.T, Sort: es, Type: u.Elem()}}}
		b.safety("index", reach, And(A("<=", Int(0), iv.T), A("<", iv.T, A("rlen", xv.T))), x.Pos(), "index in range")
		b.vals[x] = &Val{Type: x.Type(), Addr: a}
	case *types.Pointer:
		arr := types.Unalias(u.Elem()).Underlying().(*types.Array)
		a := ft.addrOf(xv)
		na := *a
		es := ft.sortOf(arr.Elem())
		if isByte(arr.Elem()) {
			es = "Int"
		}
		na.Path = append(append([]PStep{}, a.Path...), PStep{Index: iv.T, Sort: es, Type: arr.Elem()})
		b.safety("index", reach, And(A("<=", Int(0), iv.T), A("<", iv.T, Int(arr.Len()))), x.Pos(), "index in range")
		b.nilCheck(xv, reach, x.Pos())
		b.vals[x] = &Val{Type: x.Type(), Addr: &na}
	default:
		b.declVal(x)
		ft.abstraction("IndexAddr on " + x.X.Type().String())
	}
}

func (b *Body) nilOrLenCheck(v *Val) {}

func (b *Body) slice(x *ssa.Slice, reach *T, st State) {
	ft := b.ft
	xv := b.val(x.X)
	var lo, hi *T
	if x.Low != nil {
		lo = b.val(x.Low).T
	}
	if x.High != nil {
		hi = b.val(x.High).T
	}
	switch u := types.Unalias(x.X.Type()).Underlying().(type) {
	case *types.Basic: // string
		l := A("slen", xv.T)
		lo2, hi2 := lo, hi
		if lo2 == nil {
			lo2 = Int(0)
		}
		if hi2 == nil {
			hi2 = l
		}
		b.safety("slice", reach, And(A("<=", Int(0), lo2), A("<=", lo2, hi2), A("<=", hi2, l)), x.Pos(), "string slice bounds in range")
		if lo == nil && hi == nil {
			b.vals[x] = &Val{T: xv.T, Type: x.Type()}
			return
		}
		v := b.define(x, A("ssub", xv.T, lo2, hi2))
		ft.fact(Imp(And(A("<=", Int(0), lo2), A("<=", lo2, hi2), A("<=", hi2, l)), Eq(A("slen", v.T), A("-", hi2, lo2))))
	case *types.Pointer: // *[N]T
		arr := types.Unalias(u.Elem()).Underlying().(*types.Array)
		n := Int(arr.Len())
		full := (lo == nil || lo.String() == "0") && (hi == nil || hi.String() == n.String())
		a := ft.addrOf(xv)
		b.nilCheck(xv, reach, x.Pos())
		if full && a != nil && len(a.Path) == 0 {
			// the slice shares the array cell
			nv := &Val{T: a.Base, Type: x.Type()}
			if a.Fresh {
				nv.Addr = &Addr{Region: a.Region, RootSort: a.RootSort, Base: a.Base, BaseVal: a.BaseVal, Fresh: true}
			}
			if isByte(arr.Elem()) {
				// length of a byte array cell is fixed
			} else {
				ft.fact(Eq(A("rlen", a.Base), n))
			}
			b.vals[x] = nv
			return
		}
		lo2, hi2 := lo, hi
		if lo2 == nil {
			lo2 = Int(0)
		}
		if hi2 == nil {
			hi2 = n
		}
		b.safety("slice", reach, And(A("<=", Int(0), lo2), A("<=", lo2, hi2), A("<=", hi2, n)), x.Pos(), "slice bounds in range")
		b.subSliceCopy(x, a, arr.Elem(), lo2, hi2, st)
	case *types.Slice:
		var l, c *T
		if isByte(u.Elem()) {
			l = A("blen", Sel(ft.region(st, "H.Bytes"), xv.T))
			c = l
		} else {
			l = A("rlen", xv.T)
			c = A("rcap", xv.T)
		}
		if lo == nil && hi == nil && x.Max == nil {
			b.vals[x] = &Val{T: xv.T, Type: x.Type(), Addr: xv.Addr}
			return
		}
		lo2, hi2 := lo, hi
		if lo2 == nil {
			lo2 = Int(0)
		}
		if hi2 == nil {
			hi2 = l
		}
		b.safety("slice", reach, And(A("<=", Int(0), lo2), A("<=", lo2, hi2), A("<=", hi2, c)), x.Pos(), "slice bounds in range")
		a := ft.addrOf(xv)
		b.subSliceCopy(x, a, u.Elem(), lo2, hi2, st)
	default:
		b.declVal(x)
		ft.abstraction("slice of " + x.X.Type().String())
	}
}

// subSliceCopy models s[lo:hi] as a fresh slice holding a copy of the range
// (aliasing with the parent is dropped; listed as an abstraction).
func (b *Body) subSliceCopy(x *ssa.Slice, a *Addr, elem types.Type, lo, hi *T, st State) {
	ft := b.ft
	ref := b.freshRef(x)
	ft.abstraction("sub-slice modelled as copy (aliasing with parent dropped)")
	if a == nil {
		return
	}
	src := ft.load(st, a)
	if isByte(elem) {
		ft.setRegion(st, "H.Bytes", Sto(ft.region(st, "H.Bytes"), ref, A("bsub", src, lo, hi)))
		return
	}
	es := ft.sortOf(elem)
	ft.fact(Eq(A("rlen", ref), A("-", hi, lo)))
	ft.fact(A(">=", A("rcap", ref), A("rlen", ref)))
	reg := "HS." + es
	if lo.String() == "0" {
		ft.setRegion(st, reg, Sto(ft.region(st, reg), ref, src))
		return
	}
	na := ft.fresh("subslice", "(Array Int "+es+")")
	j := fmt.Sprintf("j!%d", ft.count("qv"))
	ft.fact(Forall([][2]string{{j, "Int"}}, Imp(And(A("<=", Int(0), L(j)), A("<", L(j), A("-", hi, lo))), Eq(Sel(na, L(j)), Sel(src, A("+", lo, L(j))))), []*T{Sel(na, L(j))}))
	ft.setRegion(st, reg, Sto(ft.region(st, reg), ref, na))
}

func (b *Body) convert(x *ssa.Convert, st State) {
	ft := b.ft
	xv := b.val(x.X)
	from, to := types.Unalias(x.X.Type()).Underlying(), types.Unalias(x.Type()).Underlying()
	fs, ts := ft.sortOf(from), ft.sortOf(to)
	switch {
	case fs == "Int" && ts == "Int":
		flo, fhi, fb, fsg, fok := intRange(from)
		_, _, tb, tsg, tok := intRange(to)
		_, _ = flo, fhi
		if fok && tok && ((fsg == tsg && fb <= tb) || (!fsg && tsg && fb < tb)) {
			b.vals[x] = &Val{T: xv.T, Type: x.Type()}
			return
		}
		b.define(x, ft.wrap(xv.T, to))
	case fs == "Str" && isByteSlice(to):
		ref := b.freshRef(x)
		ft.setRegion(st, "H.Bytes", Sto(ft.region(st, "H.Bytes"), ref, A("bytesOf", xv.T)))
		b.vals[x].Addr = &Addr{Region: "H.Bytes", RootSort: "Bytes", Base: ref, BaseVal: x, Fresh: true}
	case isByteSlice(from) && ts == "Str":
		b.define(x, A("strOf", Sel(ft.region(st, "H.Bytes"), xv.T)))
	case fs == "Int" && ts == "Float":
		b.define(x, A("float.of.int", xv.T))
	case fs == "Float" && ts == "Int":
		fn := "int.of.float." + symSafe(to.String())
		if _, ok := ft.e.prelude.Fns[fn]; !ok && !ft.declared[fn] {
			ft.declared[fn] = true
			ft.decls = append(ft.decls, fmt.Sprintf("(declare-fun %s (Float) Int)", fn))
		}
		b.define(x, A(fn, xv.T)) // the range fact of the target type is added by define
	case fs == "Float" && ts == "Float":
		b.vals[x] = &Val{T: xv.T, Type: x.Type()}
	case fs == ts && xv.T != nil:
		b.vals[x] = &Val{T: xv.T, Type: x.Type(), Addr: xv.Addr}
	default:
		b.declVal(x)
		ft.abstraction("conversion " + from.String() + " -> " + to.String())
	}
}

// ---------------------------------------------------------------------------
// map iteration

func (b *Body) rangeInstr(x *ssa.Range, st State) {
	ft := b.ft
	mt, ok := types.Unalias(x.X.Type()).Underlying().(*types.Map)
	b.vals[x] = &Val{T: L("nil"), Type: x.Type()}
	if !ok {
		ft.abstraction("range over string")
		return
	}
	mv := b.val(x.X)
	ks, vs := ft.sortOf(mt.Key()), ft.sortOf(mt.Elem())
	reg := fmt.Sprintf("IT.%s", b.name(x))
	b.iterIdx[x] = reg
	keys := ft.fresh("enum."+b.name(x), "(Array Int "+ks+")")
	n := ft.fresh("enum.n."+b.name(x), "Int")
	ft.fact(Eq(n, Sel(ft.region(st, "MN"), mv.T)))
	ft.fact(And(A(">=", n, Int(0)), A("<=", n, L("281474976710656"))))
	b.iterInfo[x] = &mapIter{keys: keys, n: n, m: mv.T, ksort: ks, vsort: vs, kt: mt.Key(), vt: mt.Elem()}
	st[reg] = Int(0)
	// enumeration facts: keys distinct and present (w.r.t. the map at range time)
	mk := Sel(ft.region(st, "MK."+ks), mv.T)
	j, k := fmt.Sprintf("j!%d", ft.count("qv")), fmt.Sprintf("k!%d", ft.count("qv"))
	ft.fact(Forall([][2]string{{j, "Int"}}, Imp(And(A("<=", Int(0), L(j)), A("<", L(j), n)), Sel(mk, Sel(keys, L(j)))), []*T{Sel(keys, L(j))}))
	ft.fact(Forall([][2]string{{j, "Int"}, {k, "Int"}}, Imp(And(A("<=", Int(0), L(j)), A("<", L(j), L(k)), A("<", L(k), n)), Not(Eq(Sel(keys, L(j)), Sel(keys, L(k))))), []*T{Sel(keys, L(j)), Sel(keys, L(k))}))
	// the fold of this enumeration equals the enumeration-independent sum
	if ks == "Str" && vs == "Int" {
		mvv := Sel(ft.region(st, "MV."+ks+"->"+vs), mv.T)
		ft.fact(Eq(A("esum.str", keys, mvv, n), A("mapsum.str", mk, mvv)))
		ft.trusted["A-FOLD: the sum over a map is independent of the iteration order (esum.str = mapsum.str for the loop's enumeration)"] = true
	}
	ft.mapEnums = append(ft.mapEnums, b.iterInfo[x])
}

func (b *Body) next(x *ssa.Next, blk *ssa.BasicBlock, reach *T, st State) {
	ft := b.ft
	r, _ := x.Iter.(*ssa.Range)
	info := b.iterInfo[r]
	tv := b.declVal(x)
	if info == nil {
		return // string iteration: arbitrary
	}
	reg := b.iterIdx[r]
	idx := ft.region(st, reg)
	ok := A("<", idx, info.n)
	ft.fact(Imp(reach, A("<=", Int(0), idx)))
	ft.fact(Eq(tv.Tuple[0].T, ok))
	key := Sel(info.keys, idx)
	if ft.sortOf(tv.Tuple[1].Type) == info.ksort {
		ft.fact(Imp(ok, Eq(tv.Tuple[1].T, key)))
	}
	// value read from the *current* map contents (Go semantics)
	mvr := "MV." + info.ksort + "->" + info.vsort
	if ft.sortOf(tv.Tuple[2].Type) == info.vsort {
		ft.fact(Imp(ok, Eq(tv.Tuple[2].T, Sel(Sel(ft.region(st, mvr), info.m), key))))
	}
	nv := ft.fresh("it", "Int")
	ft.fact(Eq(nv, Ite(ok, A("+", idx, Int(1)), idx)))
	st[reg] = nv
	if ft.collect {
		for _, lp := range b.loopsOf(blk) {
			m := ft.loopWrites[lp.Header]
			if m == nil {
				m = map[string][]writeRec{}
				ft.loopWrites[lp.Header] = m
			}
			m[reg] = append(m[reg], writeRec{})
		}
	}
}

var _ = strings.HasPrefix

// yield models a blocking point: other requests may run, so every ghost
// variable is arbitrary afterwards, subject to the rely that counters do not
// decrease and grow-only sets only grow.
func (b *Body) yield(blk *ssa.BasicBlock, st State) {
	ft := b.ft
	P := ft.e.prelude
	pre := st.clone()
	for _, g := range P.GhostOrder {
		old := ft.region(st, g)
		ft.havocRegion(st, g)
		b.recordWrite(blk, g, nil)
		if P.Monotone[g] {
			ft.fact(A(">=", st[g], old))
		}
		if P.Grows[g] {
			ks, _ := splitArraySort(P.Ghosts[g])
			y := fmt.Sprintf("j!%d", ft.count("qv"))
			ft.fact(Forall([][2]string{{y, ks}}, Imp(Sel(old, L(y)), Sel(st[g], L(y))), []*T{Sel(st[g], L(y))}))
		}
	}
	// declared rely clauses (two-state)
	if len(ft.e.contracts.Rely) > 0 && pre != nil {
		for _, cl := range ft.e.contracts.Rely {
			env := &CEnv{ft: ft, vars: map[string]*CV{}, cur: st, old: pre, pkg: ft.e.pkgOf(cl.Pkg)}
			if g, err := env.EvalBool(cl.Expr); err == nil {
				ft.fact(g)
			} else {
				ft.shapeFail(cl, err)
			}
		}
		ft.trusted["rely: other requests only take steps allowed by the rely clauses ("+fmt.Sprint(len(ft.e.contracts.Rely))+"), which every step of the functions in the rg tier is proved to satisfy (guarantee obligations)"] = true
	}
}
