package main

import (
	"context"
	"os"
	"os/exec"
	"path/filepath"
	"strconv"
	"strings"
	"sync"
	"time"
)

type SolveResult struct {
	Status  string            `json:"status"` // unsat sat unknown timeout error
	Solver  string            `json:"solver"`
	TimeS   float64           `json:"time_s"`
	Model   string            `json:"model,omitempty"`
	Outputs map[string]string `json:"outputs,omitempty"`
}

type solverSpec struct {
	name string
	argv func(file string, timeoutS int) []string
}

var solvers = []solverSpec{
	{"z3-new", func(f string, t int) []string { return []string{"z3-new", "-T:" + itoa(t), f} }},
	{"cvc5", func(f string, t int) []string {
		return []string{"cvc5", "--tlimit=" + itoa(t*1000), "--produce-models", f}
	}},
	{"z3", func(f string, t int) []string { return []string{"z3", "-T:" + itoa(t), f} }},
}

func itoa(n int) string { return strconv.Itoa(n) }

func runSolver(ctx context.Context, s solverSpec, file string, timeoutS int) (status, out string, dur float64) {
	t0 := time.Now()
	cctx, cancel := context.WithTimeout(ctx, time.Duration(timeoutS+2)*time.Second)
	defer cancel()
	argv := s.argv(file, timeoutS)
	cmd := exec.CommandContext(cctx, argv[0], argv[1:]...)
	b, _ := cmd.CombinedOutput()
	dur = time.Since(t0).Seconds()
	out = string(b)
	first := strings.TrimSpace(out)
	if i := strings.Index(first, "\n"); i >= 0 {
		first = strings.TrimSpace(first[:i])
	}
	switch first {
	case "unsat", "sat", "unknown":
		status = first
	case "timeout":
		status = "timeout"
	default:
		if ctx.Err() != nil {
			status = "cancelled"
		} else if cctx.Err() != nil || strings.Contains(out, "timeout") || strings.Contains(out, "interrupted") {
			status = "timeout"
		} else {
			status = "error"
		}
	}
	return
}

// Solve races the solvers on one query file. wantModel asks for a model when
// the answer is sat (a second run with (get-model)).
// Probe runs a vacuity probe: a short single-solver attempt to derive a
// contradiction. Only `unsat` is informative (the context is inconsistent).
func Probe(file string, timeoutS int) *SolveResult {
	res := &SolveResult{Outputs: map[string]string{}}
	t0 := time.Now()
	st, _, _ := runSolver(context.Background(), solvers[0], file, timeoutS)
	res.Outputs[solvers[0].name] = st
	res.Status, res.Solver, res.TimeS = st, solvers[0].name, time.Since(t0).Seconds()
	return res
}

func Solve(file string, timeoutS int, wantModel bool) *SolveResult {
	res := &SolveResult{Outputs: map[string]string{}}
	t0 := time.Now()
	ctx, cancel := context.WithCancel(context.Background())
	defer cancel()
	type ans struct {
		solver, status, out string
		dur                 float64
	}
	ch := make(chan ans, len(solvers))
	var wg sync.WaitGroup
	// first round: z3-new and cvc5 in parallel; old z3 as a fallback
	for _, s := range solvers[:2] {
		wg.Add(1)
		go func(s solverSpec) {
			defer wg.Done()
			st, out, d := runSolver(ctx, s, file, timeoutS)
			ch <- ans{s.name, st, out, d}
		}(s)
	}
	got := 0
	var satAns *ans
	for got < 2 {
		a := <-ch
		got++
		res.Outputs[a.solver] = a.status
		if a.status == "unsat" {
			cancel()
			res.Status, res.Solver, res.TimeS = "unsat", a.solver, time.Since(t0).Seconds()
			go func() { wg.Wait() }()
			return res
		}
		if a.status == "sat" && satAns == nil {
			aa := a
			satAns = &aa
			// a sat answer decides the race as well
			cancel()
			break
		}
		if a.status == "error" {
			res.Outputs[a.solver] = "error: " + truncate(strings.TrimSpace(a.out), 300)
		}
	}
	if satAns == nil {
		// fallback: old z3
		st, out, _ := runSolver(context.Background(), solvers[2], file, timeoutS)
		res.Outputs["z3"] = st
		if st == "unsat" {
			res.Status, res.Solver, res.TimeS = "unsat", "z3", time.Since(t0).Seconds()
			return res
		}
		if st == "sat" {
			satAns = &ans{"z3", st, out, 0}
		}
		if st == "error" {
			res.Outputs["z3"] = "error: " + truncate(strings.TrimSpace(out), 300)
		}
	}
	res.TimeS = time.Since(t0).Seconds()
	if satAns != nil {
		res.Status, res.Solver = "sat", satAns.solver
		if wantModel {
			res.Model = getModel(file, satAns.solver, timeoutS)
		}
		return res
	}
	res.Status = "unknown"
	nerr := 0
	for _, v := range res.Outputs {
		if v == "timeout" {
			res.Status = "timeout"
		}
		if strings.HasPrefix(v, "error") {
			nerr++
		}
	}
	if nerr == len(res.Outputs) && nerr > 0 {
		res.Status = "error" // malformed query: an engine bug, never a verdict
	}
	return res
}

func getModel(file, solver string, timeoutS int) string {
	data, err := os.ReadFile(file)
	if err != nil {
		return ""
	}
	mf := strings.TrimSuffix(file, filepath.Ext(file)) + ".model.smt2"
	os.WriteFile(mf, append(data, []byte("(get-model)\n")...), 0644)
	defer os.Remove(mf)
	for _, s := range solvers {
		if s.name == solver {
			_, out, _ := runSolver(context.Background(), s, mf, timeoutS)
			return out
		}
	}
	return ""
}
