package main

import (
	"fmt"
	"go/token"
	"go/types"

	"golang.org/x/tools/go/ssa"
)

// pureClosureTerm evaluates a single-block, side-effect-free closure on
// symbolic arguments and returns the term of its (single) result. Captured
// variables are read from the current state.
func (b *Body) pureClosureTerm(cl *Closure, args []*T, st State) (*T, bool) {
	fn := cl.Fn
	if len(fn.Blocks) != 1 {
		return nil, false
	}
	ft := b.ft
	S := ft.e.sorts
	vals := map[ssa.Value]*T{}
	addrs := map[ssa.Value]*Addr{}
	for i, p := range fn.Params {
		if i < len(args) {
			vals[p] = args[i]
		}
	}
	for i, fv := range fn.FreeVars {
		if i < len(cl.Bindings) {
			bv := cl.Bindings[i]
			if bv.Addr != nil {
				addrs[fv] = bv.Addr
			} else if bv.T != nil {
				vals[fv] = bv.T
				if a := ft.addrOf(bv); a != nil {
					addrs[fv] = a
				}
			}
		}
	}
	get := func(v ssa.Value) (*T, bool) {
		if t, ok := vals[v]; ok {
			return t, true
		}
		if c, ok := v.(*ssa.Const); ok {
			return ft.constVal(c).T, true
		}
		return nil, false
	}
	locals := map[ssa.Value]*T{} // local alloc -> current value
	type lfield struct {
		al  ssa.Value
		sel string
	}
	lfields := map[ssa.Value]lfield{} // &local.f
	for _, in := range fn.Blocks[0].Instrs {
		switch x := in.(type) {
		case *ssa.DebugRef:
		case *ssa.Alloc:
			pt := types.Unalias(x.Type()).Underlying().(*types.Pointer).Elem()
			locals[x] = S.Zero(pt)
		case *ssa.Store:
			if _, ok := locals[x.Addr]; !ok {
				return nil, false
			}
			v, ok := get(x.Val)
			if !ok {
				return nil, false
			}
			locals[x.Addr] = v
		case *ssa.Field:
			xv, ok := get(x.X)
			if !ok {
				return nil, false
			}
			stt := types.Unalias(x.X.Type()).Underlying().(*types.Struct)
			sf := S.Field(ft.sortOf(x.X.Type()), stt.Field(x.Field).Name())
			if sf == nil {
				return nil, false
			}
			vals[x] = A(sf.Sel, xv)
		case *ssa.FieldAddr:
			if _, ok := locals[x.X]; ok {
				pt := types.Unalias(x.X.Type()).Underlying().(*types.Pointer).Elem()
				f := types.Unalias(pt).Underlying().(*types.Struct).Field(x.Field)
				sf := S.Field(ft.sortOf(pt), f.Name())
				if sf == nil {
					return nil, false
				}
				lfields[x] = lfield{x.X, sf.Sel}
				continue
			}
			a, ok := addrs[x.X]
			if !ok {
				return nil, false
			}
			pt := types.Unalias(x.X.Type()).Underlying().(*types.Pointer).Elem()
			f := types.Unalias(pt).Underlying().(*types.Struct).Field(x.Field)
			na := *a
			na.Path = append(append([]PStep{}, a.Path...), PStep{Field: f.Name(), Sort: ft.sortOf(f.Type()), Type: f.Type()})
			addrs[x] = &na
		case *ssa.UnOp:
			switch x.Op {
			case token.MUL:
				if lv, ok := locals[x.X]; ok {
					vals[x] = lv
					continue
				}
				if lf, ok := lfields[x.X]; ok {
					vals[x] = A(lf.sel, locals[lf.al])
					continue
				}
				a, ok := addrs[x.X]
				if !ok {
					return nil, false
				}
				vals[x] = ft.load(st, a)
			case token.NOT:
				xv, ok := get(x.X)
				if !ok {
					return nil, false
				}
				vals[x] = Not(xv)
			default:
				return nil, false
			}
		case *ssa.BinOp:
			xv, ok1 := get(x.X)
			yv, ok2 := get(x.Y)
			if !ok1 || !ok2 {
				return nil, false
			}
			switch x.Op {
			case token.EQL:
				vals[x] = Eq(xv, yv)
			case token.NEQ:
				vals[x] = Not(Eq(xv, yv))
			case token.LSS:
				if ft.sortOf(x.X.Type()) != "Int" {
					return nil, false
				}
				vals[x] = A("<", xv, yv)
			case token.LEQ:
				if ft.sortOf(x.X.Type()) != "Int" {
					return nil, false
				}
				vals[x] = A("<=", xv, yv)
			case token.GTR:
				if ft.sortOf(x.X.Type()) != "Int" {
					return nil, false
				}
				vals[x] = A(">", xv, yv)
			case token.GEQ:
				if ft.sortOf(x.X.Type()) != "Int" {
					return nil, false
				}
				vals[x] = A(">=", xv, yv)
			default:
				return nil, false
			}
		case *ssa.Return:
			if len(x.Results) != 1 {
				return nil, false
			}
			return get(x.Results[0])
		default:
			return nil, false
		}
	}
	return nil, false
}

// nativeCall models a few generic library functions directly. Returns true
// when the call was handled.
func (b *Body) nativeCall(v ssa.Value, key string, c *ssa.CallCommon, args []*Val, blk *ssa.BasicBlock, reach *T, st State) bool {
	ft := b.ft
	switch key {
	case "reflect.DeepEqual":
		// two byte slices: equal contents
		if len(c.Args) == 2 {
			ma, ok1 := c.Args[0].(*ssa.MakeInterface)
			mb, ok2 := c.Args[1].(*ssa.MakeInterface)
			if ok1 && ok2 && isByteSlice(ma.X.Type()) && isByteSlice(mb.X.Type()) {
				hb := ft.region(st, "H.Bytes")
				r := b.declVal(v)
				ft.fact(Eq(r.T, Eq(Sel(hb, b.val(ma.X).T), Sel(hb, b.val(mb.X).T))))
				ft.trusted["reflect.DeepEqual on two []byte (modelled natively: equal contents; nil vs empty not distinguished)"] = true
				return true
			}
		}
		return false
	case "encoding/json.Unmarshal":
		// the decoded value is a deterministic function of the input bytes and
		// of the previous value of the target; err likewise
		if len(args) != 2 {
			return false
		}
		mi, ok := c.Args[1].(*ssa.MakeInterface)
		if !ok {
			return false
		}
		tv := b.val(mi.X)
		ad := ft.addrOf(tv)
		if ad == nil {
			return false
		}
		cellSort := ad.RootSort
		if len(ad.Path) > 0 {
			cellSort = ad.Path[len(ad.Path)-1].Sort
		}
		fnName := "json.dec." + symSafe(cellSort)
		if !ft.declared[fnName] {
			ft.declared[fnName] = true
			ft.decls = append(ft.decls, fmt.Sprintf("(declare-fun %s (Bytes %s) %s)", fnName, cellSort, cellSort),
				fmt.Sprintf("(declare-fun %s.err (Bytes %s) Iface)", fnName, cellSort))
		}
		data := Sel(ft.region(st, "H.Bytes"), args[0].T)
		old := ft.load(st, ad)
		b.store(st, ad, A(fnName, data, old), blk)
		r := b.declVal(v)
		ft.fact(Eq(r.T, A(fnName+".err", data, old)))
		ft.trusted["encoding/json.Unmarshal (modelled natively: decoded value and error are uninterpreted functions of the input bytes and the previous target value)"] = true
		return true
	case "sort.Slice", "sort.SliceStable":
		// the elements are permuted: every new element is an old one and
		// every old element is still present; the length is unchanged
		if len(c.Args) != 2 {
			return false
		}
		mi, ok := c.Args[0].(*ssa.MakeInterface)
		if !ok {
			return false
		}
		sl, ok := types.Unalias(mi.X.Type()).Underlying().(*types.Slice)
		if !ok || isByte(sl.Elem()) {
			return false
		}
		es := ft.sortOf(sl.Elem())
		ref := b.val(mi.X).T
		reg := "HS." + es
		oldc := Sel(ft.region(st, reg), ref)
		newc := ft.fresh("sorted", "(Array Int "+es+")")
		n := A("rlen", ref)
		j := fmt.Sprintf("j!%d", ft.count("qv"))
		k := fmt.Sprintf("k!%d", ft.count("qv"))
		inr := func(x string) *T { return And(A("<=", Int(0), L(x)), A("<", L(x), n)) }
		ft.fact(Imp(reach, Forall([][2]string{{j, "Int"}}, Imp(inr(j), Exists([][2]string{{k, "Int"}}, And(inr(k), Eq(Sel(newc, L(j)), Sel(oldc, L(k)))))), []*T{Sel(newc, L(j))})))
		ft.fact(Imp(reach, Forall([][2]string{{k, "Int"}}, Imp(inr(k), Exists([][2]string{{j, "Int"}}, And(inr(j), Eq(Sel(newc, L(j)), Sel(oldc, L(k)))))), []*T{Sel(oldc, L(k))})))
		ft.setRegion(st, reg, Sto(ft.region(st, reg), ref, newc))
		b.recordWrite(blk, reg, mi.X)
		ft.trusted["sort.Slice (modelled natively: the slice's elements are permuted; the order produced and the less function's effects are not modelled)"] = true
		return true
	case "(error).Error":
		// the text of an error: carries backend text iff the error came out of a store / Lightning call
		if !c.IsInvoke() {
			return false
		}
		r := b.declVal(v)
		if ft.e.backendError(c.Value, 0) {
			ft.fact(A("str.leak", r.T))
		} else {
			ft.fact(Not(A("str.leak", r.T)))
		}
		return true
	case "fmt.Sprintf":
		// the formatted text itself is not modelled; what is tracked (C20) is whether an
		// error value that came straight out of a store / Lightning call went into it
		r := b.declVal(v)
		leak := tFalse
		for _, a := range c.Args[1:] {
			if sl, ok := a.(*ssa.Slice); ok {
				// variadic arguments: the elements stored into the backing array
				if al, ok := sl.X.(*ssa.Alloc); ok {
					for _, ref := range *al.Referrers() {
						ia, ok := ref.(*ssa.IndexAddr)
						if !ok {
							continue
						}
						for _, r2 := range *ia.Referrers() {
							if st2, ok := r2.(*ssa.Store); ok && ft.e.backendError(st2.Val, 0) {
								leak = tTrue
							}
						}
					}
				}
			}
		}
		ft.fact(Eq(A("str.leak", r.T), leak))
		ft.usedSpec["str.leak"] = true
		if isTrue(leak) {
			ft.trusted["fmt.Sprintf (modelled natively: result arbitrary; str.leak(result) records that a store/Lightning error value was formatted into it)"] = true
		}
		return true
	case "errors.As":
		// errors.As(err, &target): on success target holds a non-nil value of
		// its type; the target cell is arbitrary otherwise
		if len(c.Args) != 2 {
			return false
		}
		mi, ok := c.Args[1].(*ssa.MakeInterface)
		if !ok {
			return false
		}
		r := b.declVal(v)
		if ad := ft.addrOf(b.val(mi.X)); ad != nil {
			cellSort := ad.RootSort
			if len(ad.Path) > 0 {
				cellSort = ad.Path[len(ad.Path)-1].Sort
			}
			nv := ft.fresh("as", cellSort)
			b.store(st, ad, nv, blk)
			if cellSort == "Ref" {
				ft.fact(Imp(r.T, Not(Eq(nv, L("nil")))))
			}
		}
		ft.fact(Imp(Eq(args[0].T, L("nil.Iface")), Not(r.T)))
		ft.trusted["errors.As (modelled natively: on success the target holds a non-nil value; which error of the chain is not modelled)"] = true
		return true
	case "slices.IndexFunc":
		if len(args) != 2 || args[1].Clos == nil {
			return false
		}
		sl, ok := types.Unalias(args[0].Type).Underlying().(*types.Slice)
		if !ok || isByte(sl.Elem()) {
			return false
		}
		es := ft.sortOf(sl.Elem())
		seq := Sel(ft.region(st, "HS."+es), args[0].T)
		n := A("rlen", args[0].T)
		r := b.declVal(v)
		pr, ok := b.pureClosureTerm(args[1].Clos, []*T{Sel(seq, r.T)}, st)
		if !ok {
			return false
		}
		j := fmt.Sprintf("j!%d", ft.count("qv"))
		pj, _ := b.pureClosureTerm(args[1].Clos, []*T{Sel(seq, L(j))}, st)
		ft.fact(Imp(reach, And(A("<=", Int(-1), r.T), A("<", r.T, n))))
		ft.fact(Imp(And(reach, A(">=", r.T, Int(0))), pr))
		ft.fact(Imp(reach, Forall([][2]string{{j, "Int"}}, Imp(And(A("<=", Int(0), L(j)), A("<", L(j), Ite(A(">=", r.T, Int(0)), r.T, n))), Not(pj)))))
		ft.trusted["slices.IndexFunc (modelled natively: first index satisfying the inlined predicate)"] = true
		return true
	}
	return false
}
