package main

import (
	"crypto/sha256"
	"fmt"
	"go/ast"
	"go/token"
	"go/types"
	"strings"

	"golang.org/x/tools/go/ssa"
)

func calleeKey(c *ssa.CallCommon) (key string, fn *ssa.Function, sig *types.Signature) {
	if c.IsInvoke() {
		return c.Method.FullName(), nil, c.Method.Type().(*types.Signature)
	}
	switch v := c.Value.(type) {
	case *ssa.Function:
		f := v
		if f.Origin() != nil {
			return f.Origin().String(), f, f.Signature
		}
		return f.String(), f, f.Signature
	case *ssa.MakeClosure:
		f := v.Fn.(*ssa.Function)
		return f.String(), f, f.Signature
	case *ssa.Builtin:
		return "builtin." + v.Name(), nil, nil
	}
	if s, ok := types.Unalias(c.Value.Type()).Underlying().(*types.Signature); ok {
		return "", nil, s
	}
	return "", nil, nil
}

func (b *Body) call(v ssa.Value, c *ssa.CallCommon, blk *ssa.BasicBlock, reach *T, st State, pos token.Pos) {
	ft := b.ft
	key, fn, sig := calleeKey(c)
	if strings.HasPrefix(key, "builtin.") {
		var bargs []*Val
		for _, a := range c.Args {
			bargs = append(bargs, b.val(a))
		}
		b.callSiteClauses(key, c, nil, bargs, reach, st, pos)
		b.builtin(v, c, key[len("builtin."):], blk, reach, st, pos)
		return
	}
	// arguments (receiver first for invoke and methods)
	var args []*Val
	if c.IsInvoke() {
		rv := b.val(c.Value)
		b.safety("nil", reach, Not(Eq(rv.T, L("nil.Iface"))), pos, "method call on nil interface")
		args = append(args, rv)
	}
	for _, a := range c.Args {
		args = append(args, b.val(a))
	}
	ft.usedFns[key] = true
	// closure called in place or known closure value
	var clos *Closure
	if fn == nil && !c.IsInvoke() {
		if cv := b.val(c.Value); cv.Clos != nil {
			clos = cv.Clos
			fn = clos.Fn
			key = fn.String()
		}
	} else if mc, ok := c.Value.(*ssa.MakeClosure); ok {
		clos = b.val(mc).Clos
	}
	con := ft.e.contracts.Fns[key]
	// a method of a concrete type declared to implement a contracted interface
	// is called under the interface method's contract
	if con == nil && fn != nil && fn.Signature.Recv() != nil {
		if i := strings.LastIndex(key, ")."); i > 0 {
			if ik, ok := ft.e.contracts.Implements[key[:i+1]]; ok {
				if ic := ft.e.contracts.Fns[ik+key[i+1:]]; ic != nil {
					con = ic
					key = ik + key[i+1:]
					ft.trusted["implements: "+fn.String()+" is called under the contract of "+key] = true
				}
			}
		}
	}
	// rely/guarantee tier: other requests act before every store / Lightning call
	if ft.rg {
		if ft.e.atomicAction(key) && con != nil {
			b.yield(blk, st)
			b.callSiteClauses(key, c, sig, args, reach, st, pos)
			pre := st.clone()
			b.applyContract(v, con, key, sig, c, args, blk, reach, st, pos)
			b.guarantee(key, pre, st, reach, pos)
			return
		}
		if fn != nil && fn.Blocks != nil && ft.e.touchesStore(key, con) {
			// a callee that itself talks to the store: its steps and the other
			// requests' steps are all within the (transitive) rely; of its
			// contract only the rg postconditions survive interleaving
			b.callSiteClauses(key, c, sig, args, reach, st, pos)
			b.yield(blk, st)
			pre := st.clone()
			res := b.callResults(v)
			if con != nil && len(con.RgEnsures) > 0 {
				post := b.calleeEnv(con, sig, c.IsInvoke(), args, st, pre)
				b.bindResults(post, sig, res)
				for _, e := range con.RgEnsures {
					if g, err := post.EvalBool(e.Expr); err == nil {
						ft.fact(Imp(reach, g))
					} else {
						ft.shapeFail(e, fmt.Errorf("at call to %s: %v", key, err))
					}
				}
			}
			ft.trusted["rg tier: "+key+" is abstracted by a yield plus its rg postconditions"] = true
			return
		}
	}
	// `calls` clauses of the function under verification
	b.callSiteClauses(key, c, sig, args, reach, st, pos)
	if (con == nil || key == "reflect.DeepEqual") && b.nativeCall(v, key, c, args, blk, reach, st) {
		return
	}
	switch {
	case fn != nil && fn.Blocks != nil && (clos != nil && fn.Parent() != nil || con != nil && con.Inline) && b.depth < 4:
		b.inline(v, fn, clos, args, blk, reach, st, pos)
	case con == nil && fn != nil && fn.Blocks != nil && b.depth < 2 && isRepoPkg(fn.Pkg) && ft.adoptsOrphanLoop(fn):
		// an uncontracted helper that contains a loop one of this function's invariants is waiting for
		ft.adoptFn = fn
		b.inline(v, fn, nil, args, blk, reach, st, pos)
		ft.adoptFn = nil
		ft.abstraction("helper " + fn.Name() + " inlined: it contains a loop that an invariant of this function is keyed to")
	case con != nil:
		b.applyContract(v, con, key, sig, c, args, blk, reach, st, pos)
	default:
		b.havocCall(v, key, fn, c, args, blk, reach, st)
	}
}

// calleeEnv builds the environment binding the callee's formal names.
func (b *Body) calleeEnv(con *FnContract, sig *types.Signature, isInvoke bool, args []*Val, cur, old State) *CEnv {
	ft := b.ft
	// no body: identifiers of a callee's contract never resolve to the caller's locals
	env := &CEnv{ft: ft, vars: map[string]*CV{}, cur: cur, old: old}
	if con != nil && con.PkgPath != "" {
		for _, p := range ft.e.prog.AllPackages() {
			if p.Pkg.Path() == con.PkgPath {
				env.pkg = p.Pkg
				break
			}
		}
	}
	names := formalNames(con, sig, isInvoke)
	for i, a := range args {
		if i < len(names) && names[i] != "" && names[i] != "_" {
			env.vars[names[i]] = &CV{T: b.refT(a), Type: a.Type, Sort: ft.sortOf(a.Type), Addr: a.Addr}
		}
		env.vars[fmt.Sprintf("a%d", i)] = &CV{T: b.refT(a), Type: a.Type, Sort: ft.sortOf(a.Type), Addr: a.Addr}
	}
	// parameters renamed since the unchanged tree: the contract's old names, by position
	if con != nil && !isInvoke {
		if old := ft.e.oldParams(con.Key); old != nil {
			for i, a := range args {
				if i < len(old) && old[i] != "" && (i >= len(names) || old[i] != names[i]) {
					if _, taken := env.vars[old[i]]; !taken {
						env.vars[old[i]] = &CV{T: b.refT(a), Type: a.Type, Sort: ft.sortOf(a.Type), Addr: a.Addr}
					}
				}
			}
		}
	}
	return env
}

// formalNames returns receiver + parameter names of a callee.
func formalNames(con *FnContract, sig *types.Signature, isInvoke bool) []string {
	var names []string
	if sig == nil {
		return nil
	}
	if sig.Recv() != nil || isInvoke {
		n := "recv"
		if sig.Recv() != nil && sig.Recv().Name() != "" && !isInvoke {
			n = sig.Recv().Name()
		}
		names = append(names, n)
	}
	for i := 0; i < sig.Params().Len(); i++ {
		names = append(names, sig.Params().At(i).Name())
	}
	if con != nil && con.ParamNames != nil {
		off := len(names) - sig.Params().Len()
		for i, n := range con.ParamNames {
			if off+i < len(names) {
				names[off+i] = n
			}
		}
	}
	return names
}

func (b *Body) bindResults(env *CEnv, sig *types.Signature, res []*Val) {
	ft := b.ft
	for i, r := range res {
		cv := &CV{T: b.refT(r), Type: r.Type, Sort: ft.sortOf(r.Type), Addr: r.Addr}
		env.vars[fmt.Sprintf("r%d", i)] = cv
		if sig != nil && i < sig.Results().Len() {
			if n := sig.Results().At(i).Name(); n != "" && n != "_" {
				env.vars[n] = cv
			}
		}
		if isErrorType(r.Type) && i == len(res)-1 {
			env.vars["err"] = cv
			if len(res) == 1 {
				env.vars["result"] = cv
			}
		} else if i == 0 {
			env.vars["result"] = cv
		}
	}
}

func isErrorType(t types.Type) bool {
	n, ok := types.Unalias(t).(*types.Named)
	return ok && n.Obj().Pkg() == nil && n.Obj().Name() == "error"
}

func (b *Body) callSiteClauses(key string, c *ssa.CallCommon, sig *types.Signature, args []*Val, reach *T, st State, pos token.Pos) {
	ft := b.ft
	if ft.con == nil {
		return
	}
	clauses := ft.con.Calls
	if !ft.rg {
		for _, cl := range ft.e.contracts.EveryCall {
			if cl.Callee == key && len(unionTags(nil, cl.Tags)) > 0 && sharesTag(cl.Tags, ft.allTags()) {
				clauses = append(append([]*Clause{}, clauses...), cl)
			}
		}
	}
	for _, cl := range clauses {
		if cl.Callee != key {
			continue
		}
		ft.callSiteHits[cl]++
		env := ft.fnEnv(b, st)
		env.at = b.curBlock
		cenv := b.calleeEnv(ft.e.contracts.Fns[key], sig, c.IsInvoke(), args, st, ft.entry)
		for k, v := range cenv.vars {
			if _, exists := env.vars[k]; !exists || !strings.HasPrefix(k, "a") {
				env.vars[k] = v
			}
		}
		g, err := env.EvalBool(cl.Expr)
		if err != nil {
			ft.shapeFail(cl, err)
			continue
		}
		name := "callsite:" + shortKey(key)
		if cl.Name != "" {
			name += "@" + cl.Name
		}
		name += fmt.Sprintf("#%d", ft.count(name))
		ft.oblige(&Obligation{Name: name, Kind: "callsite", Tags: ft.clauseTags(cl), Guard: reach, Goal: g, Src: cl.Src, Pos: ft.pos(pos)})
	}
}

func shortKey(key string) string {
	// (github.com/elnosh/gonuts/mint/storage.MintDB).SaveProofs -> storage.MintDB.SaveProofs
	k := strings.NewReplacer("(", "", ")", "", "*", "").Replace(key)
	if i := strings.LastIndex(k, "/"); i >= 0 {
		k = k[i+1:]
	}
	return k
}

// applyContract uses the callee's contract at a call site.
func (b *Body) applyContract(v ssa.Value, con *FnContract, key string, sig *types.Signature, c *ssa.CallCommon, args []*Val, blk *ssa.BasicBlock, reach *T, st State, pos token.Pos) {
	ft := b.ft
	pre := st.clone()
	env := b.calleeEnv(con, sig, c.IsInvoke(), args, pre, pre)
	for _, r := range con.Requires {
		g, err := env.EvalBool(r.Expr)
		if err != nil {
			ft.shapeFail(r, fmt.Errorf("at call to %s: %v", key, err))
			continue
		}
		// a violated callee precondition invalidates every proof of the caller
		// that uses the callee's postcondition
		// an untagged precondition counts for everything the caller claims (a
		// violated precondition invalidates every use of the postcondition); a
		// precondition with explicit tags is scoped to them by its author
		tags := r.Tags
		if len(r.Tags) == 0 {
			tags = unionTags(unionTags(r.Tags, ft.allTags()), ft.safetyTags())
		}
		name := "pre:" + shortKey(key)
		if r.Name != "" {
			name += "@" + r.Name
		}
		name += fmt.Sprintf("#%d", ft.count(name))
		ft.oblige(&Obligation{Name: name, Kind: "pre", Tags: tags, Guard: reach, Goal: g, Src: r.Src, Pos: ft.pos(pos)})
	}
	for _, r := range con.Presumes {
		if g, err := env.EvalBool(r.Expr); err == nil {
			ft.fact(Imp(reach, g))
			ft.trusted[key+" (presumes: "+r.Src+")"] = true
		} else {
			ft.shapeFail(r, fmt.Errorf("at call to %s: %v", key, err))
		}
	}
	if con.Trusted || con.NoBody {
		ft.trusted[key] = true
	}
	// crash consistency: a process can only die between two durable effects.
	// The boundary invariants of the function under verification are asserted
	// in the state right before every call that has a durable (ghost) effect.
	if ft.con != nil && len(ft.con.Boundary) > 0 && ft.e.durable(key, con) {
		b.boundary("call:"+shortKey(key), reach, st, pos)
	}
	// frame: havoc what the callee may modify
	mods := ft.e.modSet(key, con)
	names := formalNames(con, sig, c.IsInvoke())
	for _, m := range mods {
		if strings.HasPrefix(m, "map(") && strings.HasSuffix(m, ")") {
			// the contents of one map object, designated by an expression over the formals
			ex, err := ParseExprM(m[4:len(m)-1], ft.e.contracts.Macros)
			if err != nil {
				ft.shapeFail(&Clause{Kind: "modifies", Src: m, File: con.File, Line: con.Line}, err)
				continue
			}
			cv, err := env.Eval(ex)
			if err != nil || cv.Type == nil {
				ft.shapeFail(&Clause{Kind: "modifies", Src: m, File: con.File, Line: con.Line}, fmt.Errorf("at call to %s: %v", key, err))
				continue
			}
			if _, ok := types.Unalias(cv.Type).Underlying().(*types.Map); !ok {
				ft.shapeFail(&Clause{Kind: "modifies", Src: m, File: con.File, Line: con.Line}, fmt.Errorf("%s is not a map", m))
				continue
			}
			b.havocReachable(&Val{T: cv.T, Type: cv.Type}, nil, blk, st, 1)
			continue
		}
		if strings.HasPrefix(m, "*") || strings.HasPrefix(m, "[]") {
			// the cell a pointer argument designates / the contents of a slice argument
			pn := strings.TrimPrefix(strings.TrimPrefix(m, "*"), "[]")
			found := false
			for i, n := range names {
				if n == pn && i < len(args) {
					found = true
					target := args[i]
					// `modifies *x` where x is an interface wrapping a pointer
					// (json-style out parameters): the pointee is modified
					if ai := callArgIndex(c, i); ai >= 0 {
						if mi, ok := c.Args[ai].(*ssa.MakeInterface); ok {
							if _, isPtr := types.Unalias(mi.X.Type()).Underlying().(*types.Pointer); isPtr {
								target = b.val(mi.X)
							}
						}
					}
					ad := ft.addrOf(target)
					if ad == nil {
						ft.abstraction("modifies " + m + ": argument has no tracked address")
						break
					}
					sort := ad.RootSort
					if len(ad.Path) > 0 {
						sort = ad.Path[len(ad.Path)-1].Sort
					}
					b.store(st, ad, ft.fresh("mod."+pn, sort), blk)
				}
			}
			if !found {
				ft.shapeFail(&Clause{Kind: "modifies", Src: m, File: con.File, Line: con.Line}, fmt.Errorf("no parameter %q of %s", pn, key))
			}
			continue
		}
		b.havocForCall(m, args, blk, st)
	}
	// results
	var older []*T
	if con.Fresh {
		older = b.olderRefs(v)
	}
	res := b.callResults(v)
	if con.Fresh {
		// results of a `fresh` callee are new objects (when non-nil)
		for _, r := range res {
			if ft.sortOf(r.Type) == "Ref" {
				for _, o := range older {
					ft.fact(Or(Eq(r.T, L("nil")), Not(Eq(r.T, o))))
				}
			}
		}
	}
	// a contract saying `result == <param>` (the callee returns one of its
	// pointer arguments): the result designates the same address
	if pn := aliasedParam(con); pn != "" && len(res) > 0 {
		for i, n := range names {
			if n == pn && i < len(args) && args[i].Addr != nil {
				res[0].Addr = args[i].Addr
			}
		}
	}
	post := b.calleeEnv(con, sig, c.IsInvoke(), args, st, pre)
	b.bindResults(post, sig, res)
	for _, e := range append(append(append([]*Clause{}, con.Ensures...), con.Assumes...), con.Given...) {
		g, err := post.EvalBool(e.Expr)
		if err != nil {
			// a postcondition that speaks about locals of the callee is only
			// meaningful (and only checked) inside the callee's body
			if strings.Contains(err.Error(), "unknown identifier") && !con.Trusted && !con.NoBody {
				if fnb := ft.e.fnByKey[key]; fnb != nil && fnb.Blocks != nil {
					continue
				}
			}
			ft.shapeFail(e, fmt.Errorf("at call to %s: %v", key, err))
			continue
		}
		ft.fact(Imp(reach, g))
	}
	if len(con.Assumes)+len(con.Given) > 0 {
		ft.trusted[key+" (assumed clauses: "+fmt.Sprint(len(con.Assumes)+len(con.Given))+")"] = true
	}
	// `records e n`: the caller's ghost e holds the error this call returned,
	// n counts the calls (so that a caller's contract can speak about "the
	// operation was executed / what it answered")
	if len(con.Records) == 2 && len(res) > 0 {
		last := res[len(res)-1]
		if ft.sortOf(last.Type) == "Iface" {
			ft.setRegion(st, con.Records[0], last.T)
			b.recordWrite(blk, con.Records[0], nil)
		}
		ft.setRegion(st, con.Records[1], A("+", ft.region(st, con.Records[1]), Int(1)))
		b.recordWrite(blk, con.Records[1], nil)
	}
}

func (b *Body) callResults(v ssa.Value) []*Val {
	if v == nil {
		return nil
	}
	x := b.declVal(v)
	if x.Tuple != nil {
		return x.Tuple
	}
	if t, ok := v.Type().(*types.Tuple); ok && t.Len() == 0 {
		return nil
	}
	return []*Val{x}
}

// havocForCall havocs one element of a modifies set: a ghost variable, a heap
// region (type-wide), or "*name"/"name[]" designating an argument's cell.
func (b *Body) havocForCall(m string, args []*Val, blk *ssa.BasicBlock, st State) {
	ft := b.ft
	old := ft.region(st, m)
	ft.havocRegion(st, m)
	if ft.e.prelude.Monotone[m] {
		ft.fact(A(">=", st[m], old))
	}
	b.recordWrite(blk, m, nil)
}

// havocCall handles a callee without contract: results arbitrary, memory
// reachable from pointer-like arguments arbitrary.
func (b *Body) havocCall(v ssa.Value, key string, fn *ssa.Function, c *ssa.CallCommon, args []*Val, blk *ssa.BasicBlock, reach *T, st State) {
	ft := b.ft
	b.callResults(v)
	if ft.e.knownPure(key) {
		return
	}
	if fn != nil && fn.Blocks != nil && isRepoPkg(fn.Pkg) {
		// repository function without contract: use its computed mod set
		for _, m := range ft.e.modSet(key, nil) {
			b.havocForCall(m, args, blk, st)
		}
		ft.unconstrained[key] = true
		return
	}
	ft.unconstrained[key] = true
	for i, a := range args {
		var src ssa.Value
		if c.IsInvoke() {
			if i == 0 {
				continue
			}
			src = c.Args[i-1]
		} else {
			src = c.Args[i]
		}
		b.havocReachable(a, src, blk, st, 2)
	}
	// ghost state: a library callee can only reach the stores / backends if it
	// is handed one (checked from the argument types)
	for _, a := range args {
		if ft.e.carriesGhostIface(a.Type) {
			for _, g := range ft.e.prelude.GhostOrder {
				ft.havocRegion(st, g)
				b.recordWrite(blk, g, nil)
			}
			ft.abstraction("ghost state havocked at call to " + key)
			break
		}
	}
}

func isRepoPkg(p *ssa.Package) bool {
	return p != nil && (p.Pkg.Path() == modulePath || strings.HasPrefix(p.Pkg.Path(), modulePath+"/"))
}

// havocReachable makes the memory reachable from argument a arbitrary (to the
// given depth through pointers).
func (b *Body) havocReachable(a *Val, src ssa.Value, blk *ssa.BasicBlock, st State, depth int) {
	ft := b.ft
	// look through MakeInterface to the boxed value
	if mi, ok := src.(*ssa.MakeInterface); ok {
		b.havocReachable(b.val(mi.X), mi.X, blk, st, depth)
		return
	}
	if a.Type == nil {
		return
	}
	switch u := types.Unalias(a.Type).Underlying().(type) {
	case *types.Pointer, *types.Slice:
		_ = u
		ad := ft.addrOf(a)
		if ad == nil {
			return
		}
		if len(ad.Path) == 0 {
			old := ft.load(st, ad)
			reg := ft.region(st, ad.Region)
			ft.setRegion(st, ad.Region, Sto(reg, ad.Base, ft.fresh("havoc", ad.RootSort)))
			b.recordWrite(blk, ad.Region, ad.BaseVal)
			if depth > 1 {
				b.havocInner(old, ad.RootSort, ad.RootType, blk, st, depth-1)
			}
		} else {
			last := ad.Path[len(ad.Path)-1]
			b.store(st, ad, ft.fresh("havoc", last.Sort), blk)
		}
	case *types.Map:
		mt := u
		ks, vs := ft.sortOf(mt.Key()), ft.sortOf(mt.Elem())
		for _, r := range []string{"MK." + ks, "MV." + ks + "->" + vs} {
			cellSort := strings.TrimSuffix(strings.TrimPrefix(ft.regionSort(r), "(Array Ref "), ")")
			ft.setRegion(st, r, Sto(ft.region(st, r), a.T, ft.fresh("havoc", cellSort)))
			b.recordWrite(blk, r, src)
		}
		n := ft.fresh("havoc", "Int")
		ft.fact(And(A(">=", n, Int(0)), A("<=", n, L("281474976710656"))))
		ft.setRegion(st, "MN", Sto(ft.region(st, "MN"), a.T, n))
		b.recordWrite(blk, "MN", src)
	}
}

// havocInner havocs cells referenced from inside a (struct) value.
func (b *Body) havocInner(v *T, sort string, t types.Type, blk *ssa.BasicBlock, st State, depth int) {
	ft := b.ft
	info := ft.e.sorts.Info(sort)
	if info == nil {
		return
	}
	for _, f := range info.Fields {
		switch types.Unalias(f.Type).Underlying().(type) {
		case *types.Pointer, *types.Slice:
			region, rs, _, _ := ft.ptrRegion(f.Type)
			if region == "" {
				continue
			}
			ref := A(f.Sel, v)
			ft.setRegion(st, region, Sto(ft.region(st, region), ref, ft.fresh("havoc", rs)))
			b.recordWrite(blk, region, nil)
		case *types.Struct:
			b.havocInner(A(f.Sel, v), f.Sort, f.Type, blk, st, depth)
		}
	}
}

// inline splices a callee body (closure called in place, or `inline` contract).
func (b *Body) inline(v ssa.Value, fn *ssa.Function, clos *Closure, args []*Val, blk *ssa.BasicBlock, reach *T, st State, pos token.Pos) {
	ft := b.ft
	n := ft.count("inline")
	sub := ft.newBody(fn, fmt.Sprintf("%si%d.", b.prefix, n), b.loopsOf(blk), b.depth+1)
	sub.parent = b
	if ft.adoptFn == fn {
		ft.adoptedBodies[sub] = true
	}
	sub.callBlk = blk
	for i, p := range fn.Params {
		if i < len(args) {
			sub.vals[p] = args[i]
		}
	}
	if clos != nil {
		for i, fv := range fn.FreeVars {
			if i < len(clos.Bindings) {
				sub.vals[fv] = clos.Bindings[i]
			}
		}
	}
	sub.run(reach, st)
	// continuation: merge the returns
	res := b.callResults(v)
	if len(sub.rets) == 0 {
		// callee never returns
		ft.fact(Not(reach))
		return
	}
	keys := map[string]bool{}
	for _, r := range sub.rets {
		for k := range r.state {
			keys[k] = true
		}
	}
	for _, k := range sortedKeys(keys) {
		first := ft.region(sub.rets[0].state, k)
		same := true
		for _, r := range sub.rets[1:] {
			if ft.region(r.state, k) != first {
				same = false
			}
		}
		if same {
			st[k] = first
			continue
		}
		nv := ft.newRegionVersion(k)
		for _, r := range sub.rets {
			ft.fact(Imp(r.reach, Eq(nv, ft.region(r.state, k))))
		}
		st[k] = nv
	}
	var rr []*T
	for _, r := range sub.rets {
		rr = append(rr, r.reach)
		for i, x := range r.results {
			if i < len(res) {
				b.bindEq(r.reach, res[i], x)
			}
		}
	}
	// the call returns iff one of the callee's returns is reached
	ft.fact(Imp(reach, Or(rr...)))
}

func (b *Body) goStmt(x *ssa.Go, blk *ssa.BasicBlock, reach *T, st State) {
	ft := b.ft
	key, _, sig := calleeKey(&x.Call)
	ft.usedFns[key] = true
	var args []*Val
	for _, a := range x.Call.Args {
		args = append(args, b.val(a))
	}
	b.callSiteClauses(key, &x.Call, sig, args, reach, st, x.Pos())
	if con := ft.e.contracts.Fns[key]; con != nil {
		env := b.calleeEnv(con, sig, false, args, st, st)
		for _, r := range con.Requires {
			g, err := env.EvalBool(r.Expr)
			if err != nil {
				ft.shapeFail(r, err)
				continue
			}
			name := fmt.Sprintf("pre:go %s#%d", shortKey(key), ft.count("pre:go"+key))
			ft.oblige(&Obligation{Name: name, Kind: "pre", Tags: ft.clauseTags(r), Guard: reach, Goal: g, Src: r.Src, Pos: ft.pos(x.Pos())})
		}
	}
	ft.abstraction("go statement: spawned activation not modelled in the sequential tier")
}

func (b *Body) runDefers(blk *ssa.BasicBlock, reach *T, st State) {
	ft := b.ft
	for i := len(b.defers) - 1; i >= 0; i-- {
		d := b.defers[i]
		key, fn, _ := calleeKey(&d.Call)
		if fn != nil && fn.Parent() != nil {
			// deferred closure of this function: may write anything it captures
			ft.abstraction("deferred closure: all regions havocked at function exit")
			for k := range st {
				if !strings.HasPrefix(k, "IT.") {
					ft.havocRegion(st, k)
				}
			}
			continue
		}
		var args []*Val
		if d.Call.IsInvoke() {
			args = append(args, b.val(d.Call.Value))
		}
		for _, a := range d.Call.Args {
			args = append(args, b.val(a))
		}
		if con := ft.e.contracts.Fns[key]; con != nil {
			for _, m := range ft.e.modSet(key, con) {
				b.havocForCall(m, args, blk, st)
			}
			continue
		}
		if ft.e.knownPure(key) {
			continue
		}
		for j, a := range args {
			var src ssa.Value
			if d.Call.IsInvoke() {
				if j == 0 {
					continue
				}
				src = d.Call.Args[j-1]
			} else {
				src = d.Call.Args[j]
			}
			b.havocReachable(a, src, blk, st, 1)
		}
	}
}

// ---------------------------------------------------------------------------
// builtins

func (b *Body) builtin(v ssa.Value, c *ssa.CallCommon, name string, blk *ssa.BasicBlock, reach *T, st State, pos token.Pos) {
	ft := b.ft
	S := ft.e.sorts
	arg := func(i int) *Val { return b.val(c.Args[i]) }
	switch name {
	case "len", "cap":
		a := arg(0)
		switch u := types.Unalias(a.Type).Underlying().(type) {
		case *types.Basic:
			b.define(v, A("slen", a.T))
		case *types.Slice:
			if isByte(u.Elem()) {
				b.define(v, A("blen", Sel(ft.region(st, "H.Bytes"), a.T)))
			} else if name == "len" {
				b.define(v, A("rlen", a.T))
			} else {
				b.define(v, A("rcap", a.T))
			}
		case *types.Map:
			x := b.define(v, Sel(ft.region(st, "MN"), a.T))
			ft.fact(And(A(">=", x.T, Int(0)), A("<=", x.T, L("281474976710656"))))
		case *types.Pointer:
			if arr, ok := types.Unalias(u.Elem()).Underlying().(*types.Array); ok {
				b.define(v, Int(arr.Len()))
			} else {
				b.declVal(v)
			}
		case *types.Array:
			b.define(v, Int(u.Len()))
		default:
			x := b.declVal(v)
			ft.fact(A(">=", x.T, Int(0)))
		}
	case "append":
		b.appendBuiltin(v, c, blk, reach, st)
	case "copy":
		dst, src := arg(0), arg(1)
		x := b.declVal(v)
		ft.fact(A(">=", x.T, Int(0)))
		ad := ft.addrOf(dst)
		if ad == nil || len(ad.Path) != 0 {
			ft.abstraction("copy: destination not addressable, contents arbitrary")
			break
		}
		pre := b.preState(st)
		_ = pre
		if ad.RootSort == "Bytes" {
			oldb := Sel(ft.region(st, "H.Bytes"), ad.Base)
			var srcb *T
			if _, isStr := types.Unalias(src.Type).Underlying().(*types.Basic); isStr {
				srcb = A("bytesOf", src.T)
			} else {
				srcb = Sel(ft.region(st, "H.Bytes"), src.T)
			}
			dl, sl := A("blen", oldb), A("blen", srcb)
			ft.fact(Eq(x.T, Ite(A("<=", dl, sl), dl, sl)))
			newb := Ite(Eq(x.T, dl), A("bsub", srcb, Int(0), x.T), A("bcat", A("bsub", srcb, Int(0), x.T), A("bsub", oldb, x.T, dl)))
			nb := ft.fresh("copy", "Bytes")
			ft.fact(Eq(nb, newb))
			ft.fact(Eq(A("blen", nb), dl))
			ft.setRegion(st, ad.Region, Sto(ft.region(st, ad.Region), ad.Base, nb))
			b.recordWrite(blk, ad.Region, c.Args[0])
			break
		}
		if strings.HasPrefix(ad.Region, "HS.") {
			oldc := Sel(ft.region(st, ad.Region), ad.Base)
			srcc := Sel(ft.region(st, ad.Region), src.T)
			dl, sl := A("rlen", dst.T), A("rlen", src.T)
			ft.fact(Eq(x.T, Ite(A("<=", dl, sl), dl, sl)))
			nc := ft.fresh("copy", ad.RootSort)
			q := fmt.Sprintf("j!%d", ft.count("qv"))
			ft.fact(Forall([][2]string{{q, "Int"}}, Eq(Sel(nc, L(q)), Ite(And(A("<=", Int(0), L(q)), A("<", L(q), x.T)), Sel(srcc, L(q)), Sel(oldc, L(q)))), []*T{Sel(nc, L(q))}))
			ft.setRegion(st, ad.Region, Sto(ft.region(st, ad.Region), ad.Base, nc))
			b.recordWrite(blk, ad.Region, c.Args[0])
			break
		}
		ft.setRegion(st, ad.Region, Sto(ft.region(st, ad.Region), ad.Base, ft.fresh("copy", ad.RootSort)))
		b.recordWrite(blk, ad.Region, c.Args[0])
		ft.abstraction("copy: destination contents arbitrary")
	case "delete":
		m, k := arg(0), arg(1)
		mt := types.Unalias(m.Type).Underlying().(*types.Map)
		ks := ft.sortOf(mt.Key())
		mk := "MK." + ks
		has := Sel(Sel(ft.region(st, mk), m.T), k.T)
		ft.setRegion(st, "MN", Sto(ft.region(st, "MN"), m.T, A("-", Sel(ft.region(st, "MN"), m.T), Ite(has, Int(1), Int(0)))))
		ft.setRegion(st, mk, Sto(ft.region(st, mk), m.T, Sto(Sel(ft.region(st, mk), m.T), k.T, tFalse)))
		b.recordWrite(blk, mk, c.Args[0])
		b.recordWrite(blk, "MN", c.Args[0])
	case "min", "max":
		x := arg(0).T
		for i := 1; i < len(c.Args); i++ {
			y := arg(i).T
			if name == "min" {
				x = Ite(A("<=", x, y), x, y)
			} else {
				x = Ite(A(">=", x, y), x, y)
			}
		}
		b.define(v, x)
	case "panic":
		if ft.con == nil || !ft.con.MayPanic {
			b.safety("panic", reach, tFalse, pos, "explicit panic unreachable")
		}
	case "print", "println", "recover", "close", "clear":
		if v != nil {
			b.callResults(v)
		}
		if name == "recover" {
			ft.abstraction("recover")
		}
	case "ssa:wrapnilchk":
		b.vals[v] = arg(0)
	default:
		if v != nil {
			b.callResults(v)
		}
		ft.abstraction("builtin " + name)
	}
	_ = S
}

func (b *Body) preState(st State) State { return st }

func (b *Body) appendBuiltin(v ssa.Value, c *ssa.CallCommon, blk *ssa.BasicBlock, reach *T, st State) {
	ft := b.ft
	s := b.val(c.Args[0])
	e := b.val(c.Args[1])
	sl := types.Unalias(v.Type()).Underlying().(*types.Slice)
	ref := b.freshRef(v)
	b.vals[v].Addr = nil
	ft.abstraction("append modelled as reallocation (aliasing through spare capacity dropped)")
	if isByte(sl.Elem()) {
		hb := ft.region(st, "H.Bytes")
		var eb *T
		if ft.sortOf(e.Type) == "Str" {
			eb = A("bytesOf", e.T)
		} else {
			eb = Sel(hb, e.T)
		}
		cat := ft.fresh("bcat", "Bytes")
		ft.fact(Eq(cat, A("bcat", Sel(hb, s.T), eb)))
		ft.fact(Eq(A("blen", cat), A("+", A("blen", Sel(hb, s.T)), A("blen", eb))))
		ft.setRegion(st, "H.Bytes", Sto(hb, ref, cat))
		b.vals[v].Addr = &Addr{Region: "H.Bytes", RootSort: "Bytes", Base: ref, BaseVal: v, Fresh: true}
		return
	}
	es := ft.sortOf(sl.Elem())
	reg := "HS." + es
	h := ft.region(st, reg)
	sl0 := A("rlen", s.T)
	el := A("rlen", e.T)
	ft.fact(Eq(A("rlen", ref), A("+", sl0, el)))
	ft.fact(A(">=", A("rcap", ref), A("rlen", ref)))
	b.vals[v].Addr = &Addr{Region: reg, RootSort: "(Array Int " + es + ")", Base: ref, BaseVal: v, Fresh: true}
	// known small constant number of appended elements
	if k, ok := constLenOfVarargs(c.Args[1]); ok && k <= 8 {
		cur := Sel(h, s.T)
		for j := 0; j < k; j++ {
			cur = Sto(cur, A("+", sl0, Int(int64(j))), Sel(Sel(h, e.T), Int(int64(j))))
		}
		ft.fact(Eq(el, Int(int64(k))))
		ft.setRegion(st, reg, Sto(h, ref, cur))
		return
	}
	na := ft.fresh("append", "(Array Int "+es+")")
	j := fmt.Sprintf("j!%d", ft.count("qv"))
	ft.fact(Forall([][2]string{{j, "Int"}}, Imp(And(A("<=", Int(0), L(j)), A("<", L(j), sl0)), Eq(Sel(na, L(j)), Sel(Sel(h, s.T), L(j)))), []*T{Sel(na, L(j))}))
	k := fmt.Sprintf("j!%d", ft.count("qv"))
	ft.fact(Forall([][2]string{{k, "Int"}}, Imp(And(A("<=", Int(0), L(k)), A("<", L(k), el)), Eq(Sel(na, A("+", sl0, L(k))), Sel(Sel(h, e.T), L(k)))), []*T{Sel(Sel(h, e.T), L(k))}))
	// the same, triggered by a read of the result
	m := fmt.Sprintf("j!%d", ft.count("qv"))
	ft.fact(Forall([][2]string{{m, "Int"}}, Imp(And(A("<=", sl0, L(m)), A("<", L(m), A("+", sl0, el))), Eq(Sel(na, L(m)), Sel(Sel(h, e.T), A("-", L(m), sl0)))), []*T{Sel(na, L(m))}))
	ft.setRegion(st, reg, Sto(h, ref, na))
	// registered prefix sums are additive over concatenation (A-FOLD)
	for _, sf := range ft.e.prelude.AppendSum[es] {
		ft.usedSpec[sf] = true
		ft.trusted["A-FOLD: "+sf+" is additive over append (sum of a concatenation)"] = true
		spec := ft.e.prelude.Fns[sf]
		if spec == nil || len(spec.Args) <= 2 {
			ft.fact(Eq(A(sf, na, A("+", sl0, el)), A("+", A(sf, Sel(h, s.T), sl0), A(sf, Sel(h, e.T), el))))
			continue
		}
		// sums with parameters (f(seq, x1..xk, n)): additive for every choice of the parameters
		var binds [][2]string
		var xs []*T
		for _, so := range spec.Args[1 : len(spec.Args)-1] {
			v := fmt.Sprintf("x!%d", ft.count("qv"))
			binds = append(binds, [2]string{v, so})
			xs = append(xs, L(v))
		}
		nv := fmt.Sprintf("n!%d", ft.count("qv"))
		binds = append(binds, [2]string{nv, "Int"})
		app := func(seq *T, n *T) *T {
			return A(sf, append(append([]*T{seq}, xs...), n)...)
		}
		ft.fact(Forall(binds, Imp(Eq(L(nv), A("+", sl0, el)), Eq(app(na, L(nv)), A("+", app(Sel(h, s.T), sl0), app(Sel(h, e.T), el)))), []*T{app(na, L(nv))}))
	}
}

// constLenOfVarargs recognises `slice (new [k]T)[:]`.
func constLenOfVarargs(v ssa.Value) (int, bool) {
	sl, ok := v.(*ssa.Slice)
	if !ok || sl.Low != nil || sl.High != nil {
		return 0, false
	}
	al, ok := sl.X.(*ssa.Alloc)
	if !ok {
		return 0, false
	}
	arr, ok := types.Unalias(al.Type()).Underlying().(*types.Pointer).Elem().Underlying().(*types.Array)
	if !ok {
		return 0, false
	}
	return int(arr.Len()), true
}

// boundary asserts the boundary invariants at a program point.
func (b *Body) boundary(where string, reach *T, st State, pos token.Pos) {
	ft := b.ft
	env := ft.fnEnv(b, st)
	env.at = b.curBlock
	n := fmt.Sprint(ft.count("boundary@" + where))
	if where == "return" {
		// returns are named by their statement text (hash) and their position among the returns with
		// the same text, in source order: adding or removing an unrelated return does not rename them
		if id := ft.returnID(pos); id != "" {
			n = id
		}
	}
	for _, cl := range ft.con.Boundary {
		g, err := env.EvalBool(cl.Expr)
		if err != nil {
			ft.shapeFail(cl, err)
			continue
		}
		name := "boundary"
		if cl.Name != "" {
			name += "@" + cl.Name
		}
		name += fmt.Sprintf("@%s#%s", where, n)
		ft.oblige(&Obligation{Name: name, Kind: "boundary", Tags: ft.clauseTags(cl), Guard: reach, Goal: g, Src: cl.Src, Pos: ft.pos(pos)})
	}
}

// aliasedParam finds an ensures conjunct `result == p` / `r0 == p`.
func aliasedParam(con *FnContract) string {
	var find func(e Expr) string
	find = func(e Expr) string {
		b, ok := e.(*EBinary)
		if !ok {
			return ""
		}
		if b.Op == "&&" {
			if r := find(b.X); r != "" {
				return r
			}
			return find(b.Y)
		}
		if b.Op == "==" {
			x, ok1 := b.X.(*EIdent)
			y, ok2 := b.Y.(*EIdent)
			if ok1 && ok2 && (x.Name == "result" || x.Name == "r0") {
				return y.Name
			}
		}
		return ""
	}
	for _, c := range con.Ensures {
		if r := find(c.Expr); r != "" {
			return r
		}
	}
	return ""
}

// callArgIndex maps an index into the argument values (receiver first for
// method calls) to an index into c.Args, or -1 for the receiver of an invoke.
func callArgIndex(c *ssa.CallCommon, i int) int {
	if c.IsInvoke() {
		return i - 1
	}
	if i < len(c.Args) {
		return i
	}
	return -1
}

// guarantee: in the rely/guarantee tier every step of the function under
// verification must itself be a step the rely clauses allow (G within R).
func (b *Body) guarantee(key string, pre, post State, reach *T, pos token.Pos) {
	ft := b.ft
	for _, cl := range ft.e.contracts.Rely {
		env := &CEnv{ft: ft, vars: map[string]*CV{}, cur: post, old: pre, pkg: ft.e.pkgOf(cl.Pkg)}
		g, err := env.EvalBool(cl.Expr)
		if err != nil {
			ft.shapeFail(cl, err)
			continue
		}
		name := "guarantee:" + shortKey(key) + "@" + cl.Name
		name += fmt.Sprintf("#%d", ft.count(name))
		ft.oblige(&Obligation{Name: name, Kind: "callsite", Tags: cl.Tags, Guard: reach, Goal: g, Src: "rely " + cl.Src, Pos: ft.pos(pos)})
	}
}

func sharesTag(a, b []string) bool {
	for _, x := range a {
		for _, y := range b {
			if x == y {
				return true
			}
		}
	}
	return false
}

// adoptsOrphanLoop: fn has a range loop whose key is one of the orphan keys.
func (ft *FT) adoptsOrphanLoop(fn *ssa.Function) bool {
	if len(ft.orphanKeys) == 0 {
		return false
	}
	probe := ft.newBody(fn, "probe.", nil, 9)
	for _, lp := range probe.loops {
		if lp.RangeOf == "" {
			lp.RangeOf = ft.e.rangeText(fn, lp)
		}
		if lp.RangeOf != "" && ft.orphanKeys["range("+lp.RangeOf+")"] {
			return true
		}
	}
	return false
}

// returnID names a return statement of the function under verification.
func (ft *FT) returnID(pos token.Pos) string {
	if ft.retIDs == nil {
		ft.retIDs = map[token.Pos]string{}
		var body *ast.BlockStmt
		switch s := ft.fn.Syntax().(type) {
		case *ast.FuncDecl:
			body = s.Body
		case *ast.FuncLit:
			body = s.Body
		}
		if body != nil {
			seen := map[string]int{}
			ast.Inspect(body, func(n ast.Node) bool {
				switch r := n.(type) {
				case *ast.FuncLit:
					return false
				case *ast.ReturnStmt:
					var parts []string
					for _, x := range r.Results {
						parts = append(parts, types.ExprString(x))
					}
					txt := strings.Join(parts, ", ")
					h := sha256.Sum256([]byte(txt))
					seen[txt]++
					ft.retIDs[r.Pos()] = fmt.Sprintf("%x.%d", h[:2], seen[txt])
				}
				return true
			})
		}
	}
	return ft.retIDs[pos]
}
