package main

import (
	"fmt"
	"go/token"
	"go/types"
	"math/big"
	"os"
	"sort"
	"strings"

	"golang.org/x/tools/go/ssa"
)

// extra per-translation state (kept here to keep trans.go readable)
type ftExtra struct{}

func (e *Engine) newFT(fn *ssa.Function, con *FnContract) *FT {
	return &FT{e: e, fn: fn, con: con, declared: map[string]bool{}, strLits: map[string]string{}, abstractions: map[string]int{},
		trusted: map[string]bool{}, loopWrites: map[*ssa.BasicBlock]map[string][]writeRec{}, usedFns: map[string]bool{},
		entry: State{}, counters: map[string]int{}, nonNil: map[string]bool{}, usedSpec: map[string]bool{}, globalsUsed: map[string]bool{},
		unconstrained: map[string]bool{}, callSiteHits: map[*Clause]int{}, paramCVs: map[string]*CV{}, invHit: map[*Clause]bool{}, refSources: map[string]bool{}, namedLits: map[string]string{}}
}

// VerifyRG is the rely/guarantee tier (DESIGN.md §6.4): the same function,
// translated with a yield - the ghost state changes arbitrarily within the
// `rely` clauses - before every call that reads or writes the store or the
// Lightning backend. Only the rg clauses of the contract are proved; the
// sequential ensures / invariants / boundary clauses are not used.
func (e *Engine) VerifyRG(fn *ssa.Function, con *FnContract) *FT {
	rc := *con
	rc.Ensures, rc.Calls, rc.Invariants, rc.Boundary, rc.Safety = con.RgEnsures, con.RgCalls, con.RgInvariants, nil, nil
	rc.Assumes, rc.Given, rc.Records = nil, nil, nil
	// obligations of this tier count only for the properties its clauses name
	rc.Tags = nil
	for _, cs := range [][]*Clause{con.RgEnsures, con.RgCalls} {
		for _, c := range cs {
			rc.Tags = unionTags(rc.Tags, c.Tags)
		}
	}
	p1 := e.newFT(fn, &rc)
	p1.collect, p1.rg = true, true
	p1.translate()
	ft := e.newFT(fn, &rc)
	ft.rg = true
	ft.loopWrites = p1.loopWrites
	ft.refSources = p1.refSources
	ft.translate()
	// an obligation of this tier counts for the properties the tier's clauses name, nothing else
	var keep []*Obligation
	for _, o := range ft.obls {
		var tags []string
		for _, t := range o.Tags {
			for _, w := range rc.Tags {
				if t == w {
					tags = append(tags, t)
				}
			}
		}
		if len(tags) == 0 {
			continue
		}
		o.Tags = tags
		o.Name = "rg:" + o.Name
		keep = append(keep, o)
	}
	ft.obls = keep
	return ft
}

// Verify translates fn under its contract and returns the translation with
// all obligations generated.
func (e *Engine) Verify(fn *ssa.Function, con *FnContract) *FT {
	// pass 1: collect the write sets of loops
	p1 := e.newFT(fn, con)
	p1.collect = true
	p1.translate()
	// pass 2
	ft := e.newFT(fn, con)
	ft.loopWrites = p1.loopWrites
	ft.refSources = p1.refSources
	ft.translate()
	return ft
}

func (ft *FT) translate() {
	defer func() {
		if r := recover(); r != nil {
			if ft.collect {
				return
			}
			ft.failed = fmt.Sprint(r)
		}
	}()
	fn := ft.fn
	b := ft.newBody(fn, "", nil, 0)
	ft.top = b
	st := State{}
	nullable := map[string]bool{}
	if ft.con != nil {
		for _, n := range ft.con.Nullable {
			nullable[n] = true
		}
	}
	// frame check: a declared `modifies` list of a function with a body must cover
	// every region the body (transitively, through its callees' frames) writes to
	// through something that is not freshly allocated
	if ft.con != nil && len(ft.con.Modifies) > 0 && !ft.con.Trusted && !ft.con.NoBody && !ft.collect {
		written := map[string]bool{}
		ft.e.collectMods(fn, written)
		covered := map[string]bool{}
		for _, m := range ft.con.Modifies {
			if strings.HasPrefix(m, "map(") && strings.HasSuffix(m, ")") {
				// the map's type decides the regions; resolved against the parameters
				if ex, err := ParseExprM(m[4:len(m)-1], ft.e.contracts.Macros); err == nil {
					env0 := &CEnv{ft: ft, vars: map[string]*CV{}, cur: State{}, old: State{}, pkg: fn.Pkg.Pkg}
					for _, p := range fn.Params {
						env0.vars[p.Name()] = &CV{T: L(p.Name()), Type: p.Type(), Sort: ft.sortOf(p.Type())}
					}
					if cv, err := env0.Eval(ex); err == nil && cv.Type != nil {
						if mt, ok := types.Unalias(cv.Type).Underlying().(*types.Map); ok {
							ks, vs := ft.sortOf(mt.Key()), ft.sortOf(mt.Elem())
							covered["MK."+ks], covered["MV."+ks+"->"+vs], covered["MN"] = true, true, true
						}
					}
				}
				continue
			}
			if strings.HasPrefix(m, "*") || strings.HasPrefix(m, "[]") {
				pn := strings.TrimPrefix(strings.TrimPrefix(m, "*"), "[]")
				for _, p := range fn.Params {
					if p.Name() == pn {
						if region, _, _, _ := ft.ptrRegion(p.Type()); region != "" {
							covered[region] = true
						}
					}
				}
				continue
			}
			covered[m] = true
		}
		for _, r := range sortedKeys(written) {
			if !covered[r] {
				ft.obls = append(ft.obls, &Obligation{Name: "frame:" + r, Kind: "shape", Tags: ft.allTags(), Guard: tTrue, Goal: tFalse,
					Src: "the body writes region " + r + " which the declared `modifies` does not cover", Fn: fn.String()})
			}
		}
	}
	// `fresh` on a function with a body: every reference it returns must be newly allocated
	// (allocation, make, append, result of a fresh callee) or nil
	if ft.con != nil && ft.con.Fresh && !ft.con.Trusted && !ft.con.NoBody && !ft.collect {
		for _, blk := range fn.Blocks {
			if len(blk.Instrs) == 0 {
				continue
			}
			ret, ok := blk.Instrs[len(blk.Instrs)-1].(*ssa.Return)
			if !ok {
				continue
			}
			for i, r := range ret.Results {
				if ft.sortOf(r.Type()) != "Ref" {
					continue
				}
				if c, isC := r.(*ssa.Const); isC && c.IsNil() {
					continue
				}
				if !freshBase(r) {
					ft.obls = append(ft.obls, &Obligation{Name: fmt.Sprintf("fresh:result%d", i), Kind: "shape", Tags: ft.allTags(), Guard: tTrue, Goal: tFalse,
						Src: "the contract says `fresh` but result " + fmt.Sprint(i) + " at " + ft.pos(ret.Pos()) + " is not a new allocation", Fn: fn.String()})
				}
			}
		}
	}
	// invariants keyed `range(X)` that match no loop of the function itself: the loop may have been
	// moved verbatim into a new helper ("extract function"); such a helper is inlined and its loops
	// take these invariants (calls.go), so that the refactoring does not read as a violation
	ft.orphanKeys = map[string]bool{}
	ft.adoptedBodies = map[*Body]bool{}
	if ft.con != nil {
		for _, c := range ft.con.Invariants {
			k := strings.TrimSpace(c.Loop)
			if !strings.HasPrefix(k, "range(") {
				continue
			}
			found := false
			for _, lp := range b.loops {
				if lp.RangeOf == "" {
					lp.RangeOf = ft.e.rangeText(b.fn, lp)
				}
				if b.loopKeyMatches(lp, k) {
					found = true
				}
			}
			if !found {
				ft.orphanKeys[k] = true
				if os.Getenv("GOVC_DEBUG") != "" {
					fmt.Fprintln(os.Stderr, "orphan key", k, "in", fn.Name())
				}
			}
		}
	}
	if ft.e.recNames != nil && !ft.collect {
		m := ft.e.recNames[fn.String()]
		if m == nil {
			m = map[string]string{}
			ft.e.recNames[fn.String()] = m
		}
		var ps []string
		for _, p := range fn.Params {
			ps = append(ps, p.Name())
		}
		m["$params"] = strings.Join(ps, ",")
		m["$locals"] = strings.Join(localNames(fn), ",")
	}
	nilTested := nilComparedParams(fn)
	for _, p := range fn.Params {
		v := b.declVal(p)
		b.params = append(b.params, v)
		if ft.sortOf(p.Type()) == "Ref" && !nullable[p.Name()] {
			switch types.Unalias(p.Type()).Underlying().(type) {
			case *types.Pointer:
				ft.fact(Not(Eq(v.T, L("nil"))))
				ft.nonNil[v.T.String()] = true
				// A-NONNIL would silently kill a branch the code has on purpose
				if nilTested[p] && !ft.collect {
					ft.obls = append(ft.obls, &Obligation{Name: "vacuity:nil-branch " + p.Name(), Kind: "shape", Tags: ft.allTags(), Guard: tTrue, Goal: tFalse,
						Src: "parameter " + p.Name() + " is compared with nil in the body but assumed non-nil: declare it `nullable`", Fn: fn.String()})
				}
			}
		}
		ft.paramCVs[p.Name()] = &CV{T: v.T, Type: p.Type(), Sort: ft.sortOf(p.Type())}
	}
	for _, fv := range fn.FreeVars {
		v := b.declVal(fv)
		ft.fact(Not(Eq(v.T, L("nil"))))
		ft.nonNil[v.T.String()] = true
		// free variables are pointers to the captured variables
		if p, ok := types.Unalias(fv.Type()).Underlying().(*types.Pointer); ok {
			region, _, _, _ := ft.ptrRegion(fv.Type())
			ft.paramCVs[fv.Name()] = &CV{T: Sel(ft.entryRegion(region), v.T), Type: p.Elem(), Sort: ft.sortOf(p.Elem())}
		}
	}
	ft.entrySnapshot = State{}
	// requires are assumed
	if ft.con != nil {
		env := ft.fnEnv(b, st)
		var reqs []*T
		for _, r := range ft.con.Requires {
			g, err := env.EvalBool(r.Expr)
			if err != nil {
				ft.shapeFail(r, err)
				continue
			}
			ft.fact(g)
			reqs = append(reqs, g)
		}
		for _, r := range ft.con.Presumes {
			g, err := env.EvalBool(r.Expr)
			if err != nil {
				ft.shapeFail(r, err)
				continue
			}
			ft.fact(g)
			reqs = append(reqs, g)
			ft.trusted[fn.String()+" (presumes: "+r.Src+")"] = true
		}
		if len(reqs) > 0 {
			ft.oblige(&Obligation{Name: "vacuity:requires-satisfiable", Kind: "vacuity", Tags: ft.allTags(), Guard: tTrue, Goal: tFalse, ExpectSat: true, Src: "conjunction of requires is satisfiable"})
		}
	}
	// entry snapshot for old(): every region at its entry version
	ft.entrySnapshot = st.clone()
	b.run(tTrue, st)
	if ft.failed != "" {
		return
	}
	ft.exit(b)
	// `calls` clauses with zero call sites are shape failures
	if ft.con != nil && !ft.collect {
		for _, cl := range ft.con.Calls {
			if ft.callSiteHits[cl] == 0 {
				ft.shapeFail(cl, fmt.Errorf("no call site of %s in %s", cl.Callee, fn))
			}
		}
		for _, c := range ft.con.Invariants {
			if !ft.invariantMatched(b, c) {
				ft.shapeFail(c, fmt.Errorf("loop key %q matches no loop of %s", c.Loop, fn))
			}
		}
	}
}

func (ft *FT) invariantMatched(b *Body, c *Clause) bool {
	return ft.invHit[c]
}

// exit joins all returns and generates the postcondition obligations.
func (ft *FT) exit(b *Body) {
	if ft.con == nil {
		return
	}
	fn := ft.fn
	if len(b.rets) == 0 {
		return
	}
	// merged exit
	st := State{}
	keys := map[string]bool{}
	for _, r := range b.rets {
		for k := range r.state {
			keys[k] = true
		}
	}
	for _, k := range sortedKeys(keys) {
		first := ft.region(b.rets[0].state, k)
		same := true
		for _, r := range b.rets[1:] {
			if ft.region(r.state, k) != first {
				same = false
			}
		}
		if same {
			st[k] = first
			continue
		}
		nv := ft.newRegionVersion(k)
		for _, r := range b.rets {
			ft.fact(Imp(r.reach, Eq(nv, ft.region(r.state, k))))
		}
		st[k] = nv
	}
	var reaches []*T
	res := make([]*Val, fn.Signature.Results().Len())
	for i := range res {
		t := fn.Signature.Results().At(i).Type()
		n := fmt.Sprintf("ret.%d", i)
		ft.declare(n, ft.sortOf(t))
		res[i] = &Val{T: L(n), Type: t}
	}
	for _, r := range b.rets {
		reaches = append(reaches, r.reach)
		for i, x := range r.results {
			b.bindEq(r.reach, res[i], x)
		}
	}
	ft.declare("fn.exit", "Bool")
	ft.fact(Eq(L("fn.exit"), Or(reaches...)))
	exit := L("fn.exit")
	env := ft.fnEnv(b, st)
	b.bindResults(env, fn.Signature, res)
	ft.exitEnv = env
	// `given` clauses: stated assumptions about the execution, assumed at exit
	for _, c := range ft.con.Given {
		g, err := env.EvalBool(c.Expr)
		if err != nil {
			ft.shapeFail(c, err)
			continue
		}
		ft.fact(Imp(exit, g))
		ft.trusted[fn.String()+" (given: "+c.Src+")"] = true
	}
	if len(ft.con.Ensures) > 0 {
		ft.oblige(&Obligation{Name: "vacuity:exit-reachable", Kind: "vacuity", Tags: ft.allTags(), Guard: exit, Goal: tFalse, ExpectSat: true, Src: "some return is reachable"})
	}
	for i, c := range ft.con.Ensures {
		name := "post"
		if c.Name != "" {
			name += "@" + c.Name
		} else {
			name += fmt.Sprintf("#%d", i+1)
		}
		parts := splitConj(c.Expr)
		for k, pe := range parts {
			g, err := env.EvalBool(pe)
			if err != nil {
				ft.shapeFail(c, err)
				continue
			}
			pn := name
			if len(parts) > 1 {
				pn = fmt.Sprintf("%s.%d", name, k+1)
			}
			if ft.e.perReturn {
				for ri, r := range b.rets {
					ft.oblige(&Obligation{Name: fmt.Sprintf("%s@ret%d", pn, ri), Kind: "post", Tags: ft.clauseTags(c), Guard: r.reach, Goal: g, Src: c.Src, Pos: ft.pos(r.pos)})
				}
				continue
			}
			ft.oblige(&Obligation{Name: pn, Kind: "post", Tags: ft.clauseTags(c), Guard: exit, Goal: g, Src: c.Src, Pos: ft.pos(fn.Pos())})
		}
		// cover: the antecedent of an implication is reachable at exit
		if bin, ok := c.Expr.(*EBinary); ok && bin.Op == "==>" {
			if a, err := env.EvalBool(bin.X); err == nil {
				ft.oblige(&Obligation{Name: "vacuity:cover-" + name, Kind: "vacuity", Tags: ft.clauseTags(c), Guard: And(exit, a), Goal: tFalse, ExpectSat: true, Src: "antecedent reachable: " + c.Src})
			}
		}
	}
	// the engine must be able to refute `ensures false`
	if len(ft.con.Ensures) > 0 {
		ft.oblige(&Obligation{Name: "vacuity:ensures-false-refuted", Kind: "vacuity", Tags: ft.allTags(), Guard: exit, Goal: tFalse, ExpectSat: true, Src: "ensures false must fail"})
	}
}

// ---------------------------------------------------------------------------
// Query assembly

func (ft *FT) background() (head []string, facts []*T) {
	S := ft.e.sorts
	// string literals
	var lits []string
	for _, s := range ft.strOrder {
		n := ft.strLits[s]
		head = append(head, fmt.Sprintf("(declare-const %s Str) ; %q", n, truncate(s, 60)))
		lits = append(lits, n)
	}
	for _, s := range ft.strOrder {
		n := ft.strLits[s]
		facts = append(facts, Eq(A("slen", L(n)), Int(int64(len(s)))))
		if isLowerHex(s) {
			facts = append(facts, A("canonhex", L(n)))
		}
		if ft.usedSpec["str.leak"] {
			facts = append(facts, Not(A("str.leak", L(n)))) // a literal carries no backend error text
		}
	}
	for _, sv := range sortedKeys(ft.namedLits) {
		n := ft.namedLits[sv]
		lits = append(lits, n)
		facts = append(facts, Eq(A("slen", L(n)), Int(int64(len(sv)))))
	}
	if len(lits) > 0 {
		args := []*T{L("str.empty")}
		for _, l := range lits {
			args = append(args, L(l))
		}
		facts = append(facts, A("distinct", args...))
	}
	// prefix facts between literals (used for token prefixes etc.) are not needed
	if len(ft.allocRefs) > 1 {
		facts = append(facts, A("distinct", ft.allocRefs...))
	}
	for _, a := range ft.allocRefs {
		for _, p := range ft.top.params {
			if p.T != nil && ft.sortOf(p.Type) == "Ref" {
				facts = append(facts, Not(Eq(a, p.T)))
			}
		}
	}
	_ = S
	return
}

func isLowerHex(s string) bool {
	if len(s) == 0 || len(s)%2 != 0 {
		return false
	}
	for _, c := range s {
		if !(c >= '0' && c <= '9' || c >= 'a' && c <= 'f') {
			return false
		}
	}
	return true
}

func truncate(s string, n int) string {
	if len(s) > n {
		return s[:n] + "..."
	}
	return s
}

// Query renders the SMT-LIB text of one obligation.
func (ft *FT) Query(o *Obligation) string {
	e := ft.e
	head, lfacts := ft.background()
	excluded := ft.excludedInvFacts(o)
	var all []*T
	// An obligation only sees what was established before its program point:
	// facts generated later (postconditions of the very call whose
	// precondition is being proved, invariants of later loops, ...) describe
	// executions that got past this point and must not justify it.
	for i, f := range ft.facts {
		if excluded[i] {
			continue
		}
		if o.Kind != "lemma" && o.Kind != "vacuity" && i >= o.nfacts && !ft.timeless[i] {
			continue
		}
		all = append(all, f)
	}
	all = append(all, lfacts...)
	all = append(all, o.Extra...)
	goalNeg := Not(o.Goal)
	// unfold spec functions occurring anywhere
	terms := append(append([]*T{}, all...), o.Guard, goalNeg)
	unf := ft.unfoldInstances(terms)
	// symbols used -> prelude modules
	used := map[string]bool{}
	for _, t := range terms {
		t.Symbols(used)
	}
	for _, t := range unf {
		t.Symbols(used)
	}
	for _, d := range ft.decls {
		for _, f := range strings.FieldsFunc(d, func(r rune) bool { return r == ' ' || r == '(' || r == ')' }) {
			used[f] = true
		}
	}
	for _, d := range e.sorts.extraDecls {
		_ = d
	}
	before, after, _ := e.prelude.Select(used, o.Kind == "lemma")
	var sb strings.Builder
	sb.WriteString("(set-option :produce-models true)\n(set-logic ALL)\n")
	fmt.Fprintf(&sb, "; function %s\n; obligation %s\n; clause: %s\n", ft.fn, o.Name, o.Src)
	for _, l := range before {
		sb.WriteString(l + "\n")
	}
	for _, l := range e.sorts.declOrder {
		sb.WriteString(l + "\n")
	}
	for _, l := range e.sorts.extraDecls {
		sb.WriteString(l + "\n")
	}
	for _, l := range after {
		sb.WriteString(l + "\n")
	}
	for _, el := range sortedKeys(e.sorts.zeroArrays) {
		n := "zeroarr." + symSafe(el)
		if !used[n] {
			continue
		}
		fmt.Fprintf(&sb, "(declare-const %s (Array Int %s))\n(assert (forall ((j Int)) (! (= (select %s j) %s) :pattern ((select %s j)))))\n", n, el, n, e.sorts.zeroArrays[el], n)
	}
	for _, l := range head {
		sb.WriteString(l + "\n")
	}
	for _, l := range ft.decls {
		sb.WriteString(l + "\n")
	}
	for _, f := range all {
		sb.WriteString("(assert " + f.String() + ")\n")
	}
	for _, f := range unf {
		sb.WriteString("(assert " + f.String() + ")\n")
	}
	sb.WriteString("; ---- obligation\n")
	sb.WriteString("(assert " + o.Guard.String() + ")\n")
	sb.WriteString("(assert " + goalNeg.String() + ")\n")
	sb.WriteString("(check-sat)\n")
	return sb.String()
}

// unfoldInstances returns, for every application of a spec function with an
// unfold rule, one instance of its defining equation (two rounds).
func (ft *FT) unfoldInstances(terms []*T) []*T {
	seen := map[string]bool{}
	var out []*T
	work := terms
	for round := 0; round < 5; round++ {
		var next []*T
		for _, t := range work {
			t.Walk(func(n *T) {
				if n.Args == nil || n.Bind != nil {
					return
				}
				if n.Op == "pow2" && len(n.Args) == 1 {
					if k, ok := evalConst(n.Args[0]); ok && k.IsInt64() && k.Int64() >= 0 && k.Int64() <= 256 {
						key := n.String()
						if !seen[key] {
							seen[key] = true
							v := new(big.Int).Lsh(big.NewInt(1), uint(k.Int64()))
							out = append(out, Eq(n, L(v.String())))
						}
						return
					}
				}
				f := ft.e.prelude.Fns[n.Op]
				if f == nil || f.Unfold == nil || len(f.ArgName) != len(n.Args) {
					return
				}
				if containsBound(n) {
					return
				}
				key := n.String()
				if seen[key] {
					return
				}
				seen[key] = true
				m := map[string]*T{}
				for i, an := range f.ArgName {
					m[an] = n.Args[i]
				}
				inst := Eq(n, f.Unfold.Subst(m))
				out = append(out, inst)
				next = append(next, inst)
			})
		}
		work = next
	}
	return out
}

// containsBound reports whether a term mentions a quantifier-bound variable
// (bound names always contain "!q" or start with "j!"/"k!").
func containsBound(t *T) bool {
	found := false
	t.Walk(func(n *T) {
		if n.Args == nil && (strings.Contains(n.Op, "!q") || strings.HasPrefix(n.Op, "j!") || strings.HasPrefix(n.Op, "k!") || strings.HasPrefix(n.Op, "x!") || strings.HasPrefix(n.Op, "n!")) {
			found = true
		}
	})
	return found
}

func (ft *FT) sortedAbstractions() []string {
	var out []string
	for k, n := range ft.abstractions {
		out = append(out, fmt.Sprintf("%s (x%d)", k, n))
	}
	sort.Strings(out)
	return out
}

// evalConst evaluates a ground integer term built from literals, + - *.
func evalConst(t *T) (*big.Int, bool) {
	if t.Args == nil {
		if t.Bind != nil {
			return nil, false
		}
		k, ok := new(big.Int).SetString(t.Op, 10)
		return k, ok
	}
	var vals []*big.Int
	for _, a := range t.Args {
		v, ok := evalConst(a)
		if !ok {
			return nil, false
		}
		vals = append(vals, v)
	}
	switch t.Op {
	case "+":
		r := big.NewInt(0)
		for _, v := range vals {
			r.Add(r, v)
		}
		return r, true
	case "-":
		if len(vals) == 1 {
			return new(big.Int).Neg(vals[0]), true
		}
		r := new(big.Int).Set(vals[0])
		for _, v := range vals[1:] {
			r.Sub(r, v)
		}
		return r, true
	case "*":
		r := big.NewInt(1)
		for _, v := range vals {
			r.Mul(r, v)
		}
		return r, true
	}
	return nil, false
}

// excludedInvFacts: an obligation that establishes or preserves a loop
// invariant is itself assumed elsewhere, so it must not lean on invariant
// assumptions of loops that come later in the program (or on its own loop, for
// establishment) - that would be circular. It may use the invariants of loops
// whose header dominates its location, and (preservation only) of loops nested
// in its own loop.
func (ft *FT) excludedInvFacts(o *Obligation) map[int]bool {
	ex := map[int]bool{}
	if o.Kind != "inv-init" && o.Kind != "inv-pres" {
		return ex
	}
	for _, f := range ft.invFacts {
		if !invFactUsable(f, o) {
			ex[f.idx] = true
		}
	}
	return ex
}

// blockIn returns the block of body `anc` at which body b (a descendant by
// inlining) is located, or nil when b is not a descendant of anc.
func blockIn(b *Body, blk *ssa.BasicBlock, anc *Body) *ssa.BasicBlock {
	for b != nil && b != anc {
		blk = b.callBlk
		b = b.parent
	}
	if b == nil {
		return nil
	}
	return blk
}

func invFactUsable(f invFact, o *Obligation) bool {
	if o.body == nil || o.blk == nil {
		return false
	}
	// location of the obligation seen from the fact's body
	if ob := blockIn(o.body, o.blk, f.body); ob != nil {
		if o.body == f.body {
			if o.Kind == "inv-init" && f.lp == o.loopRole {
				return false
			}
			if f.lp.Header.Dominates(ob) {
				return true
			}
			// preservation may use loops nested in its own loop
			return o.Kind == "inv-pres" && o.loopRole != nil && o.loopRole.Blocks[f.lp.Header] && f.lp != o.loopRole
		}
		// obligation inside an inlined callee, fact from an enclosing body
		return f.lp.Header.Dominates(ob)
	}
	// fact from an inlined callee, obligation in an enclosing body
	if fb := blockIn(f.body, f.lp.Header, o.body); fb != nil {
		if fb.Dominates(o.blk) && fb != o.blk {
			return true
		}
		return o.Kind == "inv-pres" && o.loopRole != nil && o.loopRole.Blocks[fb]
	}
	return false
}

// nilComparedParams: pointer parameters the body compares with nil.
func nilComparedParams(fn *ssa.Function) map[*ssa.Parameter]bool {
	out := map[*ssa.Parameter]bool{}
	for _, blk := range fn.Blocks {
		for _, in := range blk.Instrs {
			bo, ok := in.(*ssa.BinOp)
			if !ok || bo.Op != token.EQL && bo.Op != token.NEQ {
				continue
			}
			for _, pair := range [][2]ssa.Value{{bo.X, bo.Y}, {bo.Y, bo.X}} {
				p, isP := pair[0].(*ssa.Parameter)
				c, isC := pair[1].(*ssa.Const)
				if isP && isC && c.IsNil() {
					out[p] = true
				}
			}
		}
	}
	return out
}

// localNames: the source names of the locals of fn and of its closures.
func localNames(fn *ssa.Function) []string {
	set := map[string]bool{}
	var visit func(f *ssa.Function)
	visit = func(f *ssa.Function) {
		for _, blk := range f.Blocks {
			for _, in := range blk.Instrs {
				switch x := in.(type) {
				case *ssa.DebugRef:
					if x.Object() != nil {
						if _, isVar := x.Object().(*types.Var); isVar {
							set[x.Object().Name()] = true
						}
					}
				case *ssa.Alloc:
					if x.Comment != "" {
						set[x.Comment] = true
					}
				case *ssa.Phi:
					if x.Comment != "" {
						set[x.Comment] = true
					}
				}
			}
		}
		for _, af := range f.AnonFuncs {
			visit(af)
		}
	}
	visit(fn)
	return sortedKeys(set)
}
