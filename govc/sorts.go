package main

import (
	"fmt"
	"go/types"
	"strings"
)

const modulePath = "github.com/elnosh/gonuts"

// Sorts maps Go types to SMT sorts and keeps the datatype declarations.
type Sorts struct {
	declOrder []string          // sort declarations in dependency order
	declared  map[string]bool   // sort name -> declared
	structs   map[string]*SInfo // datatype sort name -> info
	opaque    map[string]bool   // declared uninterpreted sorts
	// external named struct types whose fields are accessed by code in scope
	fieldAccessed map[string]bool
	typeTags      map[string]int // Go type string -> interface tag
	tagOrder      []string
	boxDecl       map[string]bool
	extraDecls    []string
	zeroArrays    map[string]*T // element sort -> zero term
}

func isValueTerm(t *T) bool {
	if t.Args != nil {
		return false
	}
	switch t.Op {
	case "true", "false":
		return true
	}
	for _, c := range t.Op {
		if c < '0' || c > '9' {
			return false
		}
	}
	return true
}

type SInfo struct {
	Sort   string
	Ctor   string
	Fields []SField
	Go     *types.Struct
}

type SField struct {
	Name string
	Sel  string
	Sort string
	Type types.Type
}

func NewSorts() *Sorts {
	return &Sorts{declared: map[string]bool{}, structs: map[string]*SInfo{}, opaque: map[string]bool{},
		fieldAccessed: map[string]bool{}, typeTags: map[string]int{}, boxDecl: map[string]bool{}, zeroArrays: map[string]*T{}}
}

func typeName(t types.Type) string {
	s := types.TypeString(t, func(p *types.Package) string {
		if strings.HasPrefix(p.Path(), modulePath+"/") {
			return strings.TrimPrefix(p.Path(), modulePath+"/")
		}
		return p.Path()
	})
	return s
}

func isByte(t types.Type) bool {
	b, ok := t.Underlying().(*types.Basic)
	return ok && (b.Kind() == types.Uint8)
}

func isByteSlice(t types.Type) bool {
	s, ok := t.Underlying().(*types.Slice)
	return ok && isByte(s.Elem())
}

func isByteArray(t types.Type) bool {
	s, ok := t.Underlying().(*types.Array)
	return ok && isByte(s.Elem())
}

func isRepoType(n *types.Named) bool {
	p := n.Obj().Pkg()
	return p != nil && (p.Path() == modulePath || strings.HasPrefix(p.Path(), modulePath+"/"))
}

// SortOf returns the SMT sort of values of Go type t.
func (s *Sorts) SortOf(t types.Type) string {
	t = types.Unalias(t)
	switch u := t.(type) {
	case *types.Named:
		if st, ok := u.Underlying().(*types.Struct); ok {
			return s.structSort(u, st)
		}
		return s.SortOf(u.Underlying())
	case *types.Basic:
		switch {
		case u.Info()&types.IsInteger != 0:
			return "Int"
		case u.Info()&types.IsBoolean != 0:
			return "Bool"
		case u.Info()&types.IsString != 0:
			return "Str"
		case u.Info()&types.IsFloat != 0:
			return "Float"
		case u.Kind() == types.UnsafePointer, u.Kind() == types.UntypedNil:
			return "Ref"
		}
		return "Opaque"
	case *types.Pointer, *types.Slice, *types.Map, *types.Chan, *types.Signature:
		return "Ref"
	case *types.Interface:
		return "Iface"
	case *types.Array:
		if isByte(u.Elem()) {
			return "Bytes"
		}
		return "(Array Int " + s.SortOf(u.Elem()) + ")"
	case *types.Struct:
		return s.structSort(nil, u)
	case *types.Tuple:
		return "Tuple"
	case *types.TypeParam:
		return "Opaque"
	}
	return "Opaque"
}

func (s *Sorts) structSort(n *types.Named, st *types.Struct) string {
	var name string
	if n != nil {
		name = symSafe(typeName(n))
	} else {
		name = symSafe("anon." + fmt.Sprintf("%08x", hashStr(st.String())))
	}
	if s.declared[name] {
		return name
	}
	s.declared[name] = true
	asDatatype := n == nil || isRepoType(n) || s.fieldAccessed[typeName(n)]
	if !asDatatype || st.NumFields() == 0 {
		s.opaque[name] = true
		s.declOrder = append(s.declOrder, fmt.Sprintf("(declare-sort %s 0)\n(declare-const zero.%s %s)", name, name, name))
		return name
	}
	info := &SInfo{Sort: name, Ctor: "mk." + name, Go: st}
	for i := 0; i < st.NumFields(); i++ {
		f := st.Field(i)
		fs := s.SortOf(f.Type()) // declares dependencies first
		info.Fields = append(info.Fields, SField{Name: f.Name(), Sel: name + "." + symSafe(f.Name()), Sort: fs, Type: f.Type()})
	}
	s.structs[name] = info
	var sb strings.Builder
	fmt.Fprintf(&sb, "(declare-datatypes ((%s 0)) (((%s", name, info.Ctor)
	for _, f := range info.Fields {
		fmt.Fprintf(&sb, " (%s %s)", f.Sel, f.Sort)
	}
	sb.WriteString("))))")
	s.declOrder = append(s.declOrder, sb.String())
	return name
}

func hashStr(s string) uint32 {
	var h uint32 = 2166136261
	for i := 0; i < len(s); i++ {
		h ^= uint32(s[i])
		h *= 16777619
	}
	return h
}

func (s *Sorts) Info(sort string) *SInfo { return s.structs[sort] }

// Zero returns the zero value of Go type t.
func (s *Sorts) Zero(t types.Type) *T {
	return s.ZeroSort(s.SortOf(t), t)
}

func (s *Sorts) ZeroSort(sort string, t types.Type) *T {
	switch sort {
	case "Int":
		return L("0")
	case "Bool":
		return tFalse
	case "Str":
		return L("str.empty")
	case "Ref":
		return L("nil")
	case "Iface":
		return L("nil.Iface")
	case "Bytes":
		if t != nil {
			if a, ok := types.Unalias(t).Underlying().(*types.Array); ok {
				return A("bzeros", Int(a.Len()))
			}
		}
		return L("bempty")
	case "Float":
		return L("float.zero")
	case "Opaque":
		return L("zero.Opaque")
	}
	if info := s.structs[sort]; info != nil {
		args := make([]*T, len(info.Fields))
		for i, f := range info.Fields {
			args[i] = s.ZeroSort(f.Sort, f.Type)
		}
		return A(info.Ctor, args...)
	}
	if strings.HasPrefix(sort, "(Array Int ") {
		el := strings.TrimSuffix(strings.TrimPrefix(sort, "(Array Int "), ")")
		var et types.Type
		if t != nil {
			if a, ok := types.Unalias(t).Underlying().(*types.Array); ok {
				et = a.Elem()
			}
		}
		z := s.ZeroSort(el, et)
		if isValueTerm(z) {
			return A("(as const "+sort+")", z)
		}
		// cvc5 only accepts values in constant arrays: use a declared
		// all-zero array (axiomatised in the query header)
		s.zeroArrays[el] = z
		return L("zeroarr." + symSafe(el))
	}
	if s.opaque[sort] {
		return L("zero." + sort)
	}
	return L("zero." + sort)
}

// UpdField rebuilds a datatype value with one field replaced.
func (s *Sorts) UpdField(sort string, v *T, field string, nv *T) *T {
	info := s.structs[sort]
	if info == nil {
		panic("UpdField on non-datatype sort " + sort)
	}
	args := make([]*T, len(info.Fields))
	for i, f := range info.Fields {
		if f.Name == field {
			args[i] = nv
		} else {
			args[i] = A(f.Sel, v)
		}
	}
	return A(info.Ctor, args...)
}

func (s *Sorts) Field(sort string, field string) *SField {
	info := s.structs[sort]
	if info == nil {
		return nil
	}
	for i := range info.Fields {
		if info.Fields[i].Name == field {
			return &info.Fields[i]
		}
	}
	return nil
}

var pow2 = map[int]string{
	8: "256", 16: "65536", 32: "4294967296", 64: "18446744073709551616",
	7: "128", 15: "32768", 31: "2147483648", 63: "9223372036854775808",
}

// intRange returns (lo, hi-exclusive, bits, signed) of an integer type (linux/amd64).
func intRange(t types.Type) (lo, hi string, bits int, signed bool, ok bool) {
	b, isb := types.Unalias(t).Underlying().(*types.Basic)
	if !isb || b.Info()&types.IsInteger == 0 {
		return
	}
	switch b.Kind() {
	case types.Int8:
		bits, signed = 8, true
	case types.Int16:
		bits, signed = 16, true
	case types.Int32:
		bits, signed = 32, true
	case types.Int64, types.Int:
		bits, signed = 64, true
	case types.Uint8:
		bits = 8
	case types.Uint16:
		bits = 16
	case types.Uint32:
		bits = 32
	case types.Uint64, types.Uint, types.Uintptr:
		bits = 64
	case types.UntypedInt, types.UntypedRune:
		return "", "", 0, true, false
	default:
		return
	}
	if signed {
		return "-" + pow2[bits-1], pow2[bits-1], bits, true, true
	}
	return "0", pow2[bits], bits, false, true
}

// TypeFacts returns the facts every value of Go type t satisfies (integer
// ranges, recursively through struct fields held by value).
func (s *Sorts) TypeFacts(v *T, t types.Type) *T {
	t = types.Unalias(t)
	if lo, hi, _, _, ok := intRange(t); ok {
		return And(A("<=", IntS(lo), v), A("<", v, IntS(hi)))
	}
	sort := s.SortOf(t)
	if info := s.structs[sort]; info != nil {
		var fs []*T
		for _, f := range info.Fields {
			ff := s.TypeFacts(A(f.Sel, v), f.Type)
			if !isTrue(ff) {
				fs = append(fs, ff)
			}
		}
		return And(fs...)
	}
	return tTrue
}

// Tag returns the interface type tag of a concrete Go type.
func (s *Sorts) Tag(t types.Type) int {
	k := typeName(types.Unalias(t))
	if n, ok := s.typeTags[k]; ok {
		return n
	}
	n := len(s.typeTags) + 1
	s.typeTags[k] = n
	s.tagOrder = append(s.tagOrder, k)
	return n
}

// Box returns the names of the box/unbox functions for a concrete type.
func (s *Sorts) Box(t types.Type) (box, unbox string) {
	k := symSafe(typeName(types.Unalias(t)))
	box, unbox = "box."+k, "unbox."+k
	if !s.boxDecl[k] {
		s.boxDecl[k] = true
		so := s.SortOf(t)
		s.extraDecls = append(s.extraDecls,
			fmt.Sprintf("(declare-fun %s (%s) Iface)", box, so),
			fmt.Sprintf("(declare-fun %s (Iface) %s)", unbox, so))
	}
	return
}
