package main

import (
	"fmt"
	"go/token"
	"go/types"
	"regexp"
	"strings"

	"golang.org/x/tools/go/ssa"
)

// run translates the body from the given entry reachability and state.
func (b *Body) run(reach0 *T, st0 State) {
	for _, blk := range b.order {
		b.processBlock(blk, reach0, st0)
		if b.ft.failed != "" {
			return
		}
	}
	// loop invariant preservation at back edges
	for _, blk := range b.order {
		lp := b.loops[blk]
		if lp == nil {
			continue
		}
		for _, src := range lp.Back {
			st := b.out[src]
			if st == nil {
				continue
			}
			var cond *T
			for k, s := range src.Succs {
				if s == blk {
					cond = Or(cond, b.edge[[2]int{src.Index, k}])
				}
			}
			b.presBlk = src
			b.loopInvariants(lp, "inv-pres", cond, st, func(phi *ssa.Phi) *Val {
				for i, p := range blk.Preds {
					if p == src {
						return b.val(phi.Edges[i])
					}
				}
				return nil
			})
		}
	}
}

type inEdge struct {
	pred *ssa.BasicBlock
	idx  int // index in blk.Preds
	cond *T
	st   State
}

func (b *Body) inEdges(blk *ssa.BasicBlock) []inEdge {
	var ins []inEdge
	occ := map[*ssa.BasicBlock]int{}
	for i, p := range blk.Preds {
		j := occ[p]
		occ[p]++
		if blk.Dominates(p) {
			continue
		}
		st := b.out[p]
		if st == nil {
			continue
		}
		// the j-th occurrence of blk among p.Succs
		n := 0
		var cond *T
		for k, s := range p.Succs {
			if s == blk {
				if n == j {
					cond = b.edge[[2]int{p.Index, k}]
				}
				n++
			}
		}
		if cond == nil {
			continue
		}
		ins = append(ins, inEdge{pred: p, idx: i, cond: cond, st: st})
	}
	return ins
}

// mergeStates joins the states of the incoming edges.
func (b *Body) mergeStates(ins []inEdge) State {
	ft := b.ft
	if len(ins) == 1 {
		return ins[0].st.clone()
	}
	keys := map[string]bool{}
	for _, e := range ins {
		for k := range e.st {
			keys[k] = true
		}
	}
	st := State{}
	for _, k := range sortedKeys(keys) {
		first := ft.region(ins[0].st, k)
		same := true
		for _, e := range ins[1:] {
			if ft.region(e.st, k) != first {
				same = false
				break
			}
		}
		if same {
			st[k] = first
			continue
		}
		nv := ft.newRegionVersion(k)
		for _, e := range ins {
			ft.fact(Imp(e.cond, Eq(nv, ft.region(e.st, k))))
		}
		st[k] = nv
	}
	return st
}

func (b *Body) processBlock(blk *ssa.BasicBlock, reach0 *T, st0 State) {
	ft := b.ft
	var reach *T
	var st State
	rname := fmt.Sprintf("rb.%s%d", symSafe(b.prefix), blk.Index)
	if blk.Index == 0 {
		reach, st = reach0, st0.clone()
	} else {
		ins := b.inEdges(blk)
		if len(ins) == 0 {
			return // unreachable
		}
		var conds []*T
		for _, e := range ins {
			conds = append(conds, e.cond)
		}
		ft.declare(rname, "Bool")
		ft.fact(Eq(L(rname), Or(conds...)))
		reach = L(rname)
		st = b.mergeStates(ins)
		// phis
		var phis []*ssa.Phi
		for _, in := range blk.Instrs {
			if p, ok := in.(*ssa.Phi); ok {
				phis = append(phis, p)
			} else {
				break
			}
		}
		lp := b.loops[blk]
		if lp == nil {
			for _, p := range phis {
				pv := b.declVal(p)
				for _, e := range ins {
					ev := b.val(p.Edges[e.idx])
					b.bindEq(e.cond, pv, ev)
				}
			}
		} else {
			// entering values of the phis
			enter := map[*ssa.Phi]*Val{}
			for _, p := range phis {
				if len(ins) == 1 {
					enter[p] = b.val(p.Edges[ins[0].idx])
					continue
				}
				tmp := &Val{T: ft.fresh(b.name(p)+".enter", ft.sortOf(p.Type())), Type: p.Type()}
				for _, e := range ins {
					b.bindEq(e.cond, tmp, b.val(p.Edges[e.idx]))
				}
				enter[p] = tmp
			}
			b.identifyRange(lp, phis)
			// establishment
			b.loopInvariants(lp, "inv-init", reach, st, func(p *ssa.Phi) *Val { return enter[p] })
			// head: havoc what the loop writes, fresh phis, assume invariants
			if !ft.collect {
				b.havocLoopWrites(lp, st)
			}
			for _, p := range phis {
				b.declVal(p)
			}
			// automatic facts for range loops over slices: -1 <= idx < len
			if lp.IdxPhi != nil {
				iv := b.vals[lp.IdxPhi]
				ft.fact(Imp(reach, A(">=", iv.T, Int(-1))))
				// idx < len: the header compares idx+1 with a len() taken before the loop
				for _, in := range blk.Instrs {
					cmp, ok := in.(*ssa.BinOp)
					if !ok || cmp.Op != token.LSS {
						continue
					}
					inc, ok := cmp.X.(*ssa.BinOp)
					if !ok || inc.Op != token.ADD || inc.X != ssa.Value(lp.IdxPhi) {
						continue
					}
					if call, ok := cmp.Y.(*ssa.Call); ok {
						if bi, ok := call.Call.Value.(*ssa.Builtin); ok && bi.Name() == "len" && !lp.Blocks[call.Block()] {
							ft.fact(Imp(reach, A("<", iv.T, b.val(cmp.Y).T)))
						}
					}
				}
			}
			b.assumeInvariants(lp, reach, st)
		}
	}
	b.reach[blk] = reach
	b.curBlock = blk
	b.curState = st
	for _, in := range blk.Instrs {
		if _, ok := in.(*ssa.Phi); ok {
			continue
		}
		b.instr(in, blk, reach, st)
		if ft.failed != "" {
			return
		}
	}
	b.out[blk] = st
}

// bindEq asserts cond => dst == src for values (tuples component-wise).
func (b *Body) bindEq(cond *T, dst, src *Val) {
	if dst.Tuple != nil {
		for i := range dst.Tuple {
			if src.Tuple != nil && i < len(src.Tuple) {
				b.bindEq(cond, dst.Tuple[i], src.Tuple[i])
			}
		}
		return
	}
	b.ft.fact(Imp(cond, Eq(dst.T, b.refT(src))))
}

// refT returns a term for a value; pointer values that only exist as symbolic
// addresses get an `interior` reference.
func (b *Body) refT(v *Val) *T {
	if v.T != nil {
		return v.T
	}
	ft := b.ft
	if v.Addr != nil {
		if len(v.Addr.Path) == 0 {
			v.T = v.Addr.Base
			return v.T
		}
		// interior pointer: an uninterpreted injection of (base, path)
		var key []string
		args := []*T{v.Addr.Base}
		for _, s := range v.Addr.Path {
			if s.Field != "" {
				key = append(key, s.Field)
			} else {
				key = append(key, "#")
				args = append(args, s.Index)
			}
		}
		fn := "interior." + symSafe(v.Addr.Region+"."+strings.Join(key, "."))
		if !ft.declared[fn] {
			ft.declared[fn] = true
			sorts := make([]string, len(args))
			sorts[0] = "Ref"
			for i := 1; i < len(args); i++ {
				sorts[i] = "Int"
			}
			ft.decls = append(ft.decls, fmt.Sprintf("(declare-fun %s (%s) Ref)", fn, strings.Join(sorts, " ")))
		}
		ft.abstraction("interior pointer materialised as opaque reference")
		v.T = A(fn, args...)
		ft.fact(Not(Eq(v.T, L("nil"))))
		// Link the two views of the same memory at this instant: what the interior
		// reference designates in its own heap region is the field of the enclosing
		// object. Only when the function (transitively) writes neither region, so
		// that the two views cannot drift apart inside this activation.
		if b.curState != nil && v.Type != nil {
			if leafRegion, _, _, isSeq := ft.ptrRegion(v.Type); leafRegion != "" && !isSeq && strings.HasPrefix(leafRegion, "H.") {
				fieldsOnly := true
				for _, s := range v.Addr.Path {
					if s.Field == "" {
						fieldsOnly = false
					}
				}
				written := false
				for _, m := range ft.e.modSet(b.fn.String(), nil) {
					if m == leafRegion || m == v.Addr.Region {
						written = true
					}
				}
				if fieldsOnly && !written {
					ft.fact(Eq(Sel(ft.region(b.curState, leafRegion), v.T), ft.load(b.curState, v.Addr)))
					ft.abstraction("interior pointer " + fn + ": linked to the enclosing object's field at the point of materialisation (function writes neither region)")
				}
			}
		}
		return v.T
	}
	v.T = ft.fresh("undef", ft.sortOf(v.Type))
	return v.T
}

// ---------------------------------------------------------------------------
// Loops

func (b *Body) identifyRange(lp *Loop, phis []*ssa.Phi) {
	// range over slice: phi [enter: -1, back: idx+1]
	for _, p := range phis {
		for i, e := range p.Edges {
			if c, ok := e.(*ssa.Const); ok && c.Value != nil && c.Value.ExactString() == "-1" && !lp.Blocks[lp.Header.Preds[i]] {
				lp.IdxPhi = p
			}
		}
	}
	lp.RangeOf = b.ft.e.rangeText(b.fn, lp)
}

func (b *Body) havocLoopWrites(lp *Loop, st State) {
	ft := b.ft
	ws := ft.loopWrites[lp.Header]
	for _, region := range sortedKeys(ws) {
		recs := ws[region]
		targeted := true
		for _, r := range recs {
			if !r.ok {
				targeted = false
				break
			}
		}
		if strings.HasPrefix(region, "H.") || strings.HasPrefix(region, "HS.") || strings.HasPrefix(region, "MK.") || strings.HasPrefix(region, "MV.") || region == "MN" {
			if targeted {
				cur := ft.region(st, region)
				seen := map[ssa.Value]bool{}
				cellSort := strings.TrimSuffix(strings.TrimPrefix(ft.regionSort(region), "(Array Ref "), ")")
				for _, r := range recs {
					if seen[r.base] {
						continue
					}
					seen[r.base] = true
					bv := b.val(r.base)
					cur = Sto(cur, b.refT(bv), ft.fresh("havoc", cellSort))
				}
				ft.setRegion(st, region, cur)
				continue
			}
		}
		old := ft.region(st, region)
		ft.havocRegion(st, region)
		if ft.e.prelude.Monotone[region] {
			ft.fact(A(">=", st[region], old))
		}
	}
}

func (b *Body) loopKeyMatches(lp *Loop, key string) bool {
	key = strings.TrimSpace(key)
	if strings.HasPrefix(key, "range(") {
		want := strings.TrimSuffix(strings.TrimPrefix(key, "range("), ")")
		if lp.RangeOf == "" {
			return false
		}
		if want == lp.RangeOf {
			return true
		}
		// the ranged operand is a contract-named local that was renamed (same type, new name)
		if b.ft.e.names != nil {
			table := b.ft.e.names[b.ft.fn.String()]
			if wantT := table[want]; wantT != "" && !strings.HasPrefix(want, "$") {
				oldLocals := map[string]bool{}
				for _, n := range strings.Split(table["$locals"], ",") {
					oldLocals[n] = true
				}
				y := lp.RangeOf
				if !oldLocals[y] && table[y] == "" && localTypeString(b.fn, y) == wantT {
					return true
				}
			}
		}
		// the ranged operand mentions a parameter that was renamed since the unchanged tree
		if old := b.ft.e.oldParams(b.ft.fn.String()); old != nil {
			for i, p := range b.ft.fn.Params {
				if i < len(old) && old[i] != "" && old[i] != p.Name() {
					want = regexp.MustCompile(`\b`+regexp.QuoteMeta(old[i])+`\b`).ReplaceAllString(want, p.Name())
				}
			}
			return want == lp.RangeOf
		}
		return false
	}
	return key == fmt.Sprint(lp.Ordinal)
}

func (b *Body) invariantsOf(lp *Loop) []*Clause {
	if b.ft.con == nil {
		return nil
	}
	// loops of an adopted helper take the function's orphan invariants by their range key
	if b.ft.adoptedBodies[b] {
		var out []*Clause
		for _, c := range b.ft.con.Invariants {
			if b.ft.orphanKeys[strings.TrimSpace(c.Loop)] && b.loopKeyMatches(lp, c.Loop) {
				out = append(out, c)
			}
		}
		return out
	}
	if b.depth > 0 && b.fn != b.ft.fn && !strings.HasPrefix(b.fn.Name(), b.ft.fn.Name()+"$") {
		return nil
	}
	var out []*Clause
	for _, c := range b.ft.con.Invariants {
		key := c.Loop
		// loops of inlined closures are addressed as "$1:range(x)"
		if b.fn != b.ft.fn {
			suffix := strings.TrimPrefix(b.fn.Name(), b.ft.fn.Name())
			if !strings.HasPrefix(key, suffix+":") {
				continue
			}
			key = strings.TrimPrefix(key, suffix+":")
		} else if strings.HasPrefix(key, "$") {
			continue
		}
		if b.loopKeyMatches(lp, key) {
			out = append(out, c)
		}
	}
	return out
}

func (b *Body) loopEnv(lp *Loop, st State, phiVal func(*ssa.Phi) *Val) *CEnv {
	env := b.ft.fnEnv(b, st)
	env.at = lp.Header
	for _, in := range lp.Header.Instrs {
		p, ok := in.(*ssa.Phi)
		if !ok {
			break
		}
		v := phiVal(p)
		if v == nil {
			continue
		}
		if p.Comment != "" {
			env.vars[p.Comment] = &CV{T: b.refT(v), Type: p.Type(), Sort: b.ft.sortOf(p.Type())}
			env.phiNames = append(env.phiNames, p.Comment)
		}
		if p == lp.IdxPhi {
			cnt := &CV{T: A("+", v.T, Int(1)), Type: types.Typ[types.Int], Sort: "Int"}
			env.vars["idx"] = cnt
			if _, taken := env.vars["i"]; !taken {
				env.vars["i"] = cnt
			}
		}
	}
	// implicit counts of the enclosing range loops: idx<ordinal>
	for _, outer := range b.loops {
		if outer != lp && outer.IdxPhi != nil && outer.Blocks[lp.Header] {
			if ov, ok := b.vals[outer.IdxPhi]; ok {
				env.vars[fmt.Sprintf("idx%d", outer.Ordinal)] = &CV{T: A("+", ov.T, Int(1)), Type: types.Typ[types.Int], Sort: "Int"}
			}
		}
	}
	// a source variable named i (a phi) takes precedence over the implicit count
	for _, in := range lp.Header.Instrs {
		p, ok := in.(*ssa.Phi)
		if !ok {
			break
		}
		if p.Comment == "i" && p != lp.IdxPhi {
			if v := phiVal(p); v != nil {
				env.vars["i"] = &CV{T: b.refT(v), Type: p.Type(), Sort: b.ft.sortOf(p.Type())}
			}
		}
	}
	if it := b.loopMapIter(lp); it != nil {
		env.vars["it"] = &CV{T: b.ft.region(st, b.iterIdx[it]), Sort: "Int", Type: types.Typ[types.Int]}
		info := b.iterInfo[it]
		env.vars["keys"] = &CV{T: info.keys, Sort: "(Array Int " + info.ksort + ")"}
		env.vars["n"] = &CV{T: info.n, Sort: "Int", Type: types.Typ[types.Int]}
	}
	return env
}

func dominatesEnter(blk *ssa.BasicBlock, lp *Loop) bool { return blk.Dominates(lp.Header) }

// loopMapIter finds the map Range whose Next is in the loop header.
func (b *Body) loopMapIter(lp *Loop) *ssa.Range {
	for _, in := range lp.Header.Instrs {
		if nx, ok := in.(*ssa.Next); ok {
			if r, ok := nx.Iter.(*ssa.Range); ok {
				if _, ok := b.iterIdx[r]; ok {
					return r
				}
			}
		}
	}
	return nil
}

func (b *Body) loopInvariants(lp *Loop, kind string, guard *T, st State, phiVal func(*ssa.Phi) *Val) {
	ft := b.ft
	invs := b.invariantsOf(lp)
	if len(invs) == 0 {
		return
	}
	env := b.loopEnv(lp, st, phiVal)
	for _, c := range invs {
		ft.invHit[c] = true
		name := fmt.Sprintf("%s:loop %s", kind, c.Loop)
		if c.Name != "" {
			name += "@" + c.Name
		} else {
			name += fmt.Sprintf("#%d", ft.count(kind+c.Loop+c.Src))
		}
		parts := splitConj(c.Expr)
		for k, pe := range parts {
			cv, err := env.EvalBool(pe)
			if err != nil {
				ft.shapeFail(c, err)
				continue
			}
			pn := name
			if len(parts) > 1 {
				pn = fmt.Sprintf("%s.%d", name, k+1)
			}
			ob := &Obligation{Name: pn, Kind: kind, Tags: ft.clauseTags(c), Guard: guard, Goal: cv, Src: c.Src, Pos: ft.pos(lp.Header.Instrs[0].Pos()), body: b, loopRole: lp}
			if kind == "inv-init" {
				ob.blk = lp.Header.Idom()
			} else {
				ob.blk = b.presBlk
			}
			ft.oblige(ob)
		}
	}
}

func (b *Body) assumeInvariants(lp *Loop, reach *T, st State) {
	ft := b.ft
	invs := b.invariantsOf(lp)
	if len(invs) == 0 {
		return
	}
	env := b.loopEnv(lp, st, func(p *ssa.Phi) *Val { return b.vals[p] })
	for _, c := range invs {
		cv, err := env.EvalBool(c.Expr)
		if err != nil {
			continue // reported by loopInvariants
		}
		f := Imp(reach, cv)
		if !isTrue(f) {
			ft.invFacts = append(ft.invFacts, invFact{idx: len(ft.facts), lp: lp, body: b})
			ft.facts = append(ft.facts, f)
		}
	}
}

// ---------------------------------------------------------------------------
// Obligations

func (ft *FT) clauseTags(c *Clause) []string {
	if len(c.Tags) > 0 && c.Kind != "invariant" {
		return c.Tags
	}
	// untagged clauses, and loop invariants (every postcondition proof of the
	// function leans on them), count for every property of the function
	return unionTags(c.Tags, ft.allTags())
}

// allTags is the union of the function-level tags and all clause tags.
func (ft *FT) allTags() []string {
	if ft.con == nil {
		return nil
	}
	if ft.allTagsC != nil {
		return ft.allTagsC
	}
	out := append([]string{}, ft.con.Tags...)
	for _, cs := range [][]*Clause{ft.con.Requires, ft.con.Ensures, ft.con.Invariants, ft.con.Calls, ft.con.Boundary} {
		for _, c := range cs {
			out = unionTags(out, c.Tags)
		}
	}
	ft.allTagsC = out
	return out
}

func unionTags(a, b []string) []string {
	seen := map[string]bool{}
	var out []string
	for _, l := range [][]string{a, b} {
		for _, t := range l {
			if !seen[t] {
				seen[t] = true
				out = append(out, t)
			}
		}
	}
	return out
}

func (ft *FT) safetyTags() []string {
	if ft.con == nil {
		return nil
	}
	return ft.con.Safety
}

func (ft *FT) oblige(o *Obligation) {
	if ft.collect {
		return
	}
	o.Fn = ft.fn.String()
	o.nfacts = len(ft.facts)
	if len(ft.abstractions) > 0 {
		o.Abstracted = true
	}
	ft.obls = append(ft.obls, o)
}

func (ft *FT) shapeFail(c *Clause, err error) {
	if ft.collect {
		return
	}
	ft.obls = append(ft.obls, &Obligation{Name: "shape:" + c.Kind + " " + c.Src, Kind: "shape", Tags: ft.clauseTags(c),
		Guard: tTrue, Goal: tFalse, Src: fmt.Sprintf("contract clause cannot be resolved against the code: %v", err), Fn: ft.fn.String(),
		Pos: fmt.Sprintf("%s:%d", c.File, c.Line)})
}

func (b *Body) safety(kind string, reach *T, goal *T, pos token.Pos, what string) {
	ft := b.ft
	tags := ft.safetyTags()
	if len(tags) == 0 || ft.collect {
		return
	}
	if isTrue(goal) {
		return
	}
	n := ft.count("safety:" + kind)
	ft.oblige(&Obligation{Name: fmt.Sprintf("safety:%s#%d", kind, n), Kind: "safety", Tags: tags, Guard: reach, Goal: goal, Src: what, Pos: ft.pos(pos)})
}

// localTypeString: the Go type of the local with that source name ("" if unknown or ambiguous).
func localTypeString(fn *ssa.Function, name string) string {
	out := ""
	for _, blk := range fn.Blocks {
		for _, in := range blk.Instrs {
			t := ""
			switch x := in.(type) {
			case *ssa.DebugRef:
				if x.Object() != nil && x.Object().Name() == name {
					t = types.TypeString(x.Object().Type(), nil)
				}
			case *ssa.Alloc:
				if x.Comment == name {
					if p, ok := types.Unalias(x.Type()).Underlying().(*types.Pointer); ok {
						t = types.TypeString(p.Elem(), nil)
					}
				}
			}
			if t != "" {
				if out != "" && out != t {
					return ""
				}
				out = t
			}
		}
	}
	return out
}
