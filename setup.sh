#!/bin/sh
# Builds the VC generator from vendored sources only (offline).
set -e
cd "$(dirname "$0")/govc"
env -u GOFLAGS GOFLAGS=-mod=vendor GOPROXY=off GOSUMDB=off GOTOOLCHAIN=local go build -o ../bin/govc .
cd ..
for s in z3-new z3 cvc5; do
  echo '(set-logic ALL)(declare-const x Int)(assert (> x 1))(assert (< x 1))(check-sat)' > /tmp/govc_probe_$$.smt2
  r=$($s /tmp/govc_probe_$$.smt2 2>&1 | head -1)
  rm -f /tmp/govc_probe_$$.smt2
  [ "$r" = "unsat" ] || { echo "solver $s not answering: $r" >&2; exit 1; }
done
mkdir -p evidence out replays
echo "setup ok"
