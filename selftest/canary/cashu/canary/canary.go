// Package canary is the engine's must-fail / must-pass corpus: small functions
// whose contracts are deliberately right or wrong. Every engine change is run
// against it (./check --selftest); expected.json lists, per function, the
// obligations that must fail. A "pass" where a failure is expected is a
// soundness hole in govc.
package canary

// circular: the invariant is false on entry and mentions no loop-carried
// variable; a generator that lets the establishment obligation see the
// head assumption proves it from itself.
func CircularInv(x int, n int) int {
	s := 0
	for i := 0; i < n; i++ {
		s += i
	}
	return x
}

// two loops whose invariants could justify each other
func MutualInv(x int, n int) int {
	for i := 0; i < n; i++ {
	}
	for j := 0; j < n; j++ {
	}
	return x
}

func SumTo(n int) int {
	s := 0
	for i := 0; i < n; i++ {
		s += 1
	}
	return s
}

func SumToWrong(n int) int {
	s := 0
	for i := 0; i < n; i++ {
		s += 2
	}
	return s
}

func IndexOOB(xs []int, i int) int {
	return xs[i]
}

func IndexOK(xs []int, i int) int {
	if i >= 0 && i < len(xs) {
		return xs[i]
	}
	return 0
}

func Wrap(a, b uint64) uint64 {
	return a + b
}

func DivZero(a, b int) int {
	return a / b
}

func NilDeref(p *int) int {
	return *p
}

type box struct{ v int }

func callee(b *box) {
	b.v = 7
}

// the caller only knows the callee's contract
func Modular(b *box) int {
	b.v = 1
	callee(b)
	return b.v
}

// frame: the write goes to another cell
func Frame(a, b *box) int {
	a.v = 1
	b.v = 2
	return a.v
}

func CopyMin(dst, src []byte) int {
	return copy(dst, src)
}

func MapLookup(m map[string]int, k string) int {
	return m[k]
}

func NilMapWrite(m map[string]int, k string) {
	m[k] = 1
}

func LoopBreakPost(xs []int) int {
	for i, x := range xs {
		if x == 0 {
			return i
		}
	}
	return -1
}
