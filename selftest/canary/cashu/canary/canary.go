// Package canary is the engine's must-fail / must-pass corpus: small functions
// whose contracts are deliberately right or wrong. Every engine change is run
// against it (./check --selftest); expected.json lists, per function, the
// obligations that must fail. A "pass" where a failure is expected is a
// soundness hole in govc.
package canary

// circular: the invariant is false on entry and mentions no loop-carried
// variable; a generator that lets the establishment obligation see the
// head assumption proves it from itself.
func CircularInv(x int, n int) int {
	s := 0
	for i := 0; i < n; i++ {
		s += i
	}
	return x
}

// two loops whose invariants could justify each other
func MutualInv(x int, n int) int {
	for i := 0; i < n; i++ {
	}
	for j := 0; j < n; j++ {
	}
	return x
}

func SumTo(n int) int {
	s := 0
	for i := 0; i < n; i++ {
		s += 1
	}
	return s
}

func SumToWrong(n int) int {
	s := 0
	for i := 0; i < n; i++ {
		s += 2
	}
	return s
}

func IndexOOB(xs []int, i int) int {
	return xs[i]
}

func IndexOK(xs []int, i int) int {
	if i >= 0 && i < len(xs) {
		return xs[i]
	}
	return 0
}

func Wrap(a, b uint64) uint64 {
	return a + b
}

func DivZero(a, b int) int {
	return a / b
}

func NilDeref(p *int) int {
	return *p
}

type box struct{ v int }

func callee(b *box) {
	b.v = 7
}

// the caller only knows the callee's contract
func Modular(b *box) int {
	b.v = 1
	callee(b)
	return b.v
}

// frame: the write goes to another cell
func Frame(a, b *box) int {
	a.v = 1
	b.v = 2
	return a.v
}

func CopyMin(dst, src []byte) int {
	return copy(dst, src)
}

func MapLookup(m map[string]int, k string) int {
	return m[k]
}

func NilMapWrite(m map[string]int, k string) {
	m[k] = 1
}

func LoopBreakPost(xs []int) int {
	for i, x := range xs {
		if x == 0 {
			return i
		}
	}
	return -1
}

// ---- canaries for the "obligations only see the past" rule

type counterBox struct{ n int }

func bump(c *counterBox) {
	c.n++
}

// the callee's postcondition (n > 0) must not help to prove its own precondition
func PreFromPost(c *counterBox) int {
	bump(c)
	return c.n
}

// the facts about the result of make must not help the check in front of it
func MakeNegative(n int) []int {
	return make([]int, n)
}

// ---- canaries for the contract self-checks

func NilBranch(p *counterBox) int {
	if p == nil {
		return 0
	}
	return p.n
}

type otherBox struct{ m string }

func FrameHole(a *counterBox, b *otherBox) {
	a.n = 1
	b.m = "x"
}

type wire struct {
	A int
	B string
}

func UsesWire(w wire) int { return w.A }

func FreshLie(xs []int) []int { return xs }

func FreshTrue(xs []int) []int {
	var out []int
	for _, x := range xs {
		out = append(out, x)
	}
	return out
}
