//go:build verif

package canary

//@ func CircularInv
//@   tags S
//@   safety S
//@   loop 1 invariant x > 0
//@   ensures @pos [S] result > 0

//@ func MutualInv
//@   tags S
//@   safety S
//@   loop 1 invariant x > 0
//@   loop 2 invariant x > 0
//@   ensures @pos [S] result > 0

//@ func SumTo
//@   tags S
//@   safety S
//@   requires 0 <= n && n < 1000000
//@   loop 1 invariant 0 <= i && i <= n && s == i
//@   ensures @sum [S] result == n

//@ func SumToWrong
//@   tags S
//@   safety S
//@   requires 0 <= n && n < 1000000
//@   loop 1 invariant 0 <= i && i <= n && s == i
//@   ensures @sum [S] result == n

//@ func IndexOOB
//@   tags S
//@   safety S

//@ func IndexOK
//@   tags S
//@   safety S

//@ func Wrap
//@   tags S
//@   safety S
//@   ensures @nowrap [S] result == a + b
//@   ensures @wrap [S] result == (a + b) % 18446744073709551616

//@ func DivZero
//@   tags S
//@   safety S

//@ func NilDeref
//@   tags S
//@   safety S
//@   nullable p

//@ func callee
//@   tags S
//@   modifies *b
//@   ensures @pos [S] b.v > 0

//@ func Modular
//@   tags S
//@   safety S
//@   ensures @seven [S] result == 7
//@   ensures @pos [S] result > 0

//@ func Frame
//@   tags S
//@   safety S
//@   ensures @noalias [S] result == 1
//@   ensures @alias [S] a != b ==> result == 1

//@ func CopyMin
//@   tags S
//@   safety S
//@   ensures @min [S] result <= len(dst) && result <= len(src)
//@   ensures @full [S] result == len(src)

//@ func MapLookup
//@   tags S
//@   safety S

//@ func NilMapWrite
//@   tags S
//@   safety S
//@   nullable m

//@ func LoopBreakPost
//@   tags S
//@   safety S
//@   loop range(xs) invariant forall j :: 0 <= j && j < i ==> xs[j] != 0
//@   ensures @found [S] result >= 0 ==> result < len(xs) && xs[result] == 0
//@   ensures @none [S] result < 0 ==> (forall j :: 0 <= j && j < len(xs) ==> xs[j] != 0)
//@   ensures @wrong [S] result < 0

//@ func bump
//@   tags S
//@   requires c.n > 0 && c.n < 1000
//@   modifies *c
//@   ensures @pos [S] c.n > 0

//@ func PreFromPost
//@   tags S
//@   safety S

//@ func MakeNegative
//@   tags S
//@   safety S

//@ func NilBranch
//@   tags S
//@   safety S

//@ func FrameHole
//@   tags S
//@   safety S
//@   modifies *a

//@ struct canary.wire [S] A B
//@ struct canary.wire [S] A

//@ func FreshLie
//@   tags S
//@   fresh
//@   ensures @len [S] len(result) == len(xs)

//@ func FreshTrue
//@   tags S
//@   fresh
//@   ensures @nonneg [S] len(result) >= 0
