module github.com/elnosh/gonuts

go 1.23
