; Spec prelude of govc.  Modules are included in a query only when one of the
; symbols they declare is used (module `core` always).  Everything here is an
; assumption about uninterpreted symbols unless it is a definition; the
; quantified axioms are listed in DESIGN.md §9 and in each evidence file.
;@module core
(declare-sort Ref 0)
(declare-sort Str 0)
(declare-sort Bytes 0)
(declare-sort Iface 0)
(declare-sort Float 0)
(declare-sort Opaque 0)
(declare-const nil Ref)
(declare-const nil.Iface Iface)
(declare-const str.empty Str)
(declare-const bempty Bytes)
(declare-const float.zero Float)
(declare-const zero.Opaque Opaque)
(declare-fun slen (Str) Int)
(declare-fun rlen (Ref) Int)
(declare-fun rcap (Ref) Int)
(declare-fun blen (Bytes) Int)
(declare-fun itag (Iface) Int)
(assert (= (slen str.empty) 0))
(assert (= (blen bempty) 0))
(assert (= (rlen nil) 0))
(assert (= (rcap nil) 0))
(assert (= (itag nil.Iface) 0))
; A-ARCH: no slice or map object has more than 2^48 elements (user address space of linux/amd64 is 2^47 bytes);
; strings and byte strings are mathematical sequences here (spec functions build them), so they carry no bound
(assert (forall ((s Str)) (! (>= (slen s) 0) :pattern ((slen s)))))
(assert (forall ((s Str)) (! (=> (= (slen s) 0) (= s str.empty)) :pattern ((slen s)))))
(assert (forall ((r Ref)) (! (and (>= (rlen r) 0) (>= (rcap r) (rlen r)) (<= (rlen r) 281474976710656)) :pattern ((rlen r)))))
(assert (forall ((b Bytes)) (! (>= (blen b) 0) :pattern ((blen b)))))
(assert (forall ((i Iface)) (! (=> (= (itag i) 0) (= i nil.Iface)) :pattern ((itag i)))))
(assert (forall ((i Iface)) (! (>= (itag i) 0) :pattern ((itag i)))))

;@module strings
(declare-fun scat (Str Str) Str)
(declare-fun ssub (Str Int Int) Str)
(declare-fun sat (Str Int) Int)
(declare-fun str.lt (Str Str) Bool)
(declare-fun canonhex (Str) Bool)
; C20: the text was formatted from an error value of a store / Lightning call (set by the native model of fmt.Sprintf)
(declare-fun str.leak (Str) Bool)
(assert (forall ((a Str) (b Str)) (! (= (slen (scat a b)) (+ (slen a) (slen b))) :pattern ((scat a b)))))
(assert (forall ((s Str)) (! (= (ssub s 0 (slen s)) s) :pattern ((ssub s 0 (slen s))))))

;@module bytes
(declare-fun bcat (Bytes Bytes) Bytes)
(declare-fun bsub (Bytes Int Int) Bytes)
(declare-fun bat (Bytes Int) Int)
(declare-fun bset (Bytes Int Int) Bytes)
(declare-fun bzeros (Int) Bytes)
(declare-fun bytesOf (Str) Bytes)
(declare-fun strOf (Bytes) Str)
(declare-fun bytes1 (Int) Bytes)
(assert (forall ((a Bytes) (b Bytes)) (! (= (blen (bcat a b)) (+ (blen a) (blen b))) :pattern ((bcat a b)))))
(assert (forall ((a Bytes)) (! (= (bcat bempty a) a) :pattern ((bcat bempty a)))))
(assert (forall ((a Bytes)) (! (= (bcat a bempty) a) :pattern ((bcat a bempty)))))
(assert (forall ((s Str)) (! (and (= (blen (bytesOf s)) (slen s)) (= (strOf (bytesOf s)) s)) :pattern ((bytesOf s)))))
(assert (forall ((b Bytes)) (! (and (= (slen (strOf b)) (blen b)) (= (bytesOf (strOf b)) b)) :pattern ((strOf b)))))
(assert (forall ((n Int)) (! (=> (>= n 0) (= (blen (bzeros n)) n)) :pattern ((bzeros n)))))
(assert (forall ((b Bytes) (i Int) (v Int)) (! (= (blen (bset b i v)) (blen b)) :pattern ((bset b i v)))))
(assert (forall ((b Bytes) (i Int)) (! (and (<= 0 (bat b i)) (< (bat b i) 256)) :pattern ((bat b i)))))
(assert (forall ((b Bytes) (lo Int) (hi Int)) (! (=> (and (<= 0 lo) (<= lo hi) (<= hi (blen b))) (= (blen (bsub b lo hi)) (- hi lo))) :pattern ((bsub b lo hi)))))
(assert (forall ((b Bytes)) (! (= (bsub b 0 (blen b)) b) :pattern ((bsub b 0 (blen b))))))
(assert (forall ((v Int)) (! (= (blen (bytes1 v)) 1) :pattern ((bytes1 v)))))
(assert (forall ((v Int)) (! (= (bset (bzeros 1) 0 v) (bytes1 v)) :pattern ((bset (bzeros 1) 0 v)))))

;@module bits
(declare-fun bitand (Int Int) Int)
(declare-fun bitor (Int Int) Int)
(declare-fun bitxor (Int Int) Int)
(declare-fun bitandnot (Int Int) Int)
(define-unfold pow2 ((n Int)) Int (ite (<= n 0) 1 (* 2 (pow2 (- n 1)))))
(assert (forall ((n Int)) (! (>= (pow2 n) 1) :pattern ((pow2 n)))))
;@module bits.ax
;@attach-proved bits
; pow2 is strictly increasing on the naturals (induction: lemmas pow2.mono.*)
(assert (forall ((a Int) (b Int)) (! (=> (and (<= 0 a) (< a b)) (< (pow2 a) (pow2 b))) :pattern ((pow2 a) (pow2 b)))))

;@module floats bits
; float64 is not modelled: operations are uninterpreted; the few exact facts the
; code relies on are axioms (A-FLOAT)
(declare-fun float.of.int (Int) Float)
(declare-fun float.add (Float Float) Float)
(declare-fun float.sub (Float Float) Float)
(declare-fun float.mul (Float Float) Float)
(declare-fun float.div (Float Float) Float)
(declare-fun float.neg (Float) Float)
(declare-fun float.lt (Float Float) Bool)
(declare-fun float.le (Float Float) Bool)
(declare-fun float.pow (Float Float) Float)
(declare-fun float.exp2 (Float) Float)
(declare-const float.c._2 Float)
(declare-const float.c._16 Float)
(declare-const float.c._65536 Float)
(declare-fun int.of.float.uint64 (Float) Int)
(declare-fun int.of.float.int64 (Float) Int)
(declare-fun int.of.float.int (Float) Int)
(declare-fun int.of.float.uint (Float) Int)
(declare-fun int.of.float.uint32 (Float) Int)
(assert (forall ((f Float)) (! (and (<= 0 (int.of.float.uint64 f)) (< (int.of.float.uint64 f) 18446744073709551616)) :pattern ((int.of.float.uint64 f)))))
(assert (forall ((f Float)) (! (and (<= 0 (int.of.float.uint f)) (< (int.of.float.uint f) 18446744073709551616)) :pattern ((int.of.float.uint f)))))
(assert (forall ((f Float)) (! (and (<= (- 9223372036854775808) (int.of.float.int64 f)) (< (int.of.float.int64 f) 9223372036854775808)) :pattern ((int.of.float.int64 f)))))
(assert (forall ((f Float)) (! (and (<= (- 9223372036854775808) (int.of.float.int f)) (< (int.of.float.int f) 9223372036854775808)) :pattern ((int.of.float.int f)))))
(assert (forall ((f Float)) (! (and (<= 0 (int.of.float.uint32 f)) (< (int.of.float.uint32 f) 4294967296)) :pattern ((int.of.float.uint32 f)))))
; powers of two up to 2^63 are exact in float64 and convert back exactly
(assert (forall ((i Int)) (! (=> (and (<= 0 i) (< i 64)) (= (int.of.float.uint64 (float.pow float.c._2 (float.of.int i))) (pow2 i))) :pattern ((float.pow float.c._2 (float.of.int i))))))
(assert (= (float.exp2 float.c._16) float.c._65536))
(assert (= (int.of.float.uint32 float.c._65536) 65536))

;@module sums
; Prefix sums of amounts.  Amounts are clamped at 0 (`nn`) so that the sums are
; non-negative for every array; on values read from memory the clamp is the
; identity because every uint64 field carries its range fact.
(define-fun nn ((x Int)) Int (ite (< x 0) 0 x))
(define-unfold sum.bm.amount ((a (Array Int cashu.BlindedMessage)) (n Int)) Int (ite (<= n 0) 0 (+ (sum.bm.amount a (- n 1)) (nn (cashu.BlindedMessage.Amount (select a (- n 1)))))))
(define-unfold sum.proof.amount ((a (Array Int cashu.Proof)) (n Int)) Int (ite (<= n 0) 0 (+ (sum.proof.amount a (- n 1)) (nn (cashu.Proof.Amount (select a (- n 1)))))))
(define-unfold sum.sig.amount ((a (Array Int cashu.BlindedSignature)) (n Int)) Int (ite (<= n 0) 0 (+ (sum.sig.amount a (- n 1)) (nn (cashu.BlindedSignature.Amount (select a (- n 1)))))))
;@appendsum cashu.Proof sum.proof.amount
; nested sums of the two token formats (inner slices are read from the heap of
; proof slices, passed as an argument)
(define-unfold sum.v3 ((a (Array Int cashu.TokenV3Proof)) (h (Array Ref (Array Int cashu.Proof))) (n Int)) Int (ite (<= n 0) 0 (+ (sum.v3 a h (- n 1)) (sum.proof.amount (select h (cashu.TokenV3Proof.Proofs (select a (- n 1)))) (rlen (cashu.TokenV3Proof.Proofs (select a (- n 1))))))))
(define-unfold sum.pv4 ((a (Array Int cashu.ProofV4)) (n Int)) Int (ite (<= n 0) 0 (+ (sum.pv4 a (- n 1)) (nn (cashu.ProofV4.Amount (select a (- n 1)))))))
(define-unfold sum.v4 ((a (Array Int cashu.TokenV4Proof)) (h (Array Ref (Array Int cashu.ProofV4))) (n Int)) Int (ite (<= n 0) 0 (+ (sum.v4 a h (- n 1)) (sum.pv4 (select h (cashu.TokenV4Proof.Proofs (select a (- n 1)))) (rlen (cashu.TokenV4Proof.Proofs (select a (- n 1))))))))
;@module sums.ax
;@attach-proved sums
; non-negativity and frame under an update at or beyond the prefix: both are
; inductive facts, proved as base + step lemmas in contracts/lemmas.gvc (the
; lemma queries are generated WITHOUT this module)
(assert (forall ((a (Array Int cashu.BlindedMessage)) (n Int)) (! (>= (sum.bm.amount a n) 0) :pattern ((sum.bm.amount a n)))))
(assert (forall ((a (Array Int cashu.Proof)) (n Int)) (! (>= (sum.proof.amount a n) 0) :pattern ((sum.proof.amount a n)))))
(assert (forall ((a (Array Int cashu.BlindedSignature)) (n Int)) (! (>= (sum.sig.amount a n) 0) :pattern ((sum.sig.amount a n)))))
(assert (forall ((a (Array Int cashu.ProofV4)) (n Int)) (! (>= (sum.pv4 a n) 0) :pattern ((sum.pv4 a n)))))
(assert (forall ((a (Array Int cashu.TokenV3Proof)) (h (Array Ref (Array Int cashu.Proof))) (n Int)) (! (>= (sum.v3 a h n) 0) :pattern ((sum.v3 a h n)))))
(assert (forall ((a (Array Int cashu.TokenV4Proof)) (h (Array Ref (Array Int cashu.ProofV4))) (n Int)) (! (>= (sum.v4 a h n) 0) :pattern ((sum.v4 a h n)))))
(assert (forall ((a (Array Int cashu.BlindedSignature)) (i Int) (v cashu.BlindedSignature) (n Int)) (! (=> (<= n i) (= (sum.sig.amount (store a i v) n) (sum.sig.amount a n))) :pattern ((sum.sig.amount (store a i v) n)))))
(assert (forall ((a (Array Int cashu.Proof)) (i Int) (v cashu.Proof) (n Int)) (! (=> (<= n i) (= (sum.proof.amount (store a i v) n) (sum.proof.amount a n))) :pattern ((sum.proof.amount (store a i v) n)))))
(assert (forall ((a (Array Int cashu.BlindedMessage)) (i Int) (v cashu.BlindedMessage) (n Int)) (! (=> (<= n i) (= (sum.bm.amount (store a i v) n) (sum.bm.amount a n))) :pattern ((sum.bm.amount (store a i v) n)))))

;@module hex
(declare-fun hexenc (Bytes) Str)
(declare-fun hexdec (Str) Bytes)
(declare-fun hexok (Str) Bool)
(assert (forall ((b Bytes)) (! (and (hexok (hexenc b)) (= (hexdec (hexenc b)) b) (= (slen (hexenc b)) (* 2 (blen b))) (canonhex (hexenc b))) :pattern ((hexenc b)))))
(assert (forall ((s Str)) (! (=> (hexok s) (= (slen s) (* 2 (blen (hexdec s))))) :pattern ((hexdec s)))))
(assert (forall ((s Str)) (! (=> (canonhex s) (and (hexok s) (= (hexenc (hexdec s)) s))) :pattern ((canonhex s)))))

;@module hash
(declare-fun sha256 (Bytes) Bytes)
(assert (forall ((b Bytes)) (! (= (blen (sha256 b)) 32) :pattern ((sha256 b)))))

;@module group bytes hex
;@gotype github.com/decred/dcrd/dcrec/secp256k1/v4.PublicKey
;@gotype github.com/decred/dcrd/dcrec/secp256k1/v4.PrivateKey
;@gotype github.com/decred/dcrd/dcrec/secp256k1/v4.ModNScalar
;@gotype github.com/decred/dcrd/dcrec/secp256k1/v4.JacobianPoint
;@gotype github.com/decred/dcrd/dcrec/secp256k1/v4.FieldVal
; Abstract prime-order group (DESIGN.md §5.5): points Pt with addition,
; scalars Sc with ring operations, scalar multiplication.
(declare-sort Pt 0)
(declare-sort Sc 0)
(declare-const pt.O Pt)
(declare-const pt.G Pt)
(declare-fun padd (Pt Pt) Pt)
(declare-fun pneg (Pt) Pt)
(declare-fun smul (Sc Pt) Pt)
(declare-fun sadd (Sc Sc) Sc)
(declare-fun smulS (Sc Sc) Sc)
(declare-fun sneg (Sc) Sc)
(declare-const sc.0 Sc)
(declare-fun pt.ser (Pt) Bytes)
(declare-fun pt.seru (Pt) Bytes)
(declare-fun pt.parse (Bytes) Pt)
(declare-fun pt.parseok (Bytes) Bool)
(declare-fun pk.pt (github.com/decred/dcrd/dcrec/secp256k1/v4.PublicKey) Pt)
(declare-fun jp.pt (github.com/decred/dcrd/dcrec/secp256k1/v4.JacobianPoint) Pt)
(declare-fun jp.affine (github.com/decred/dcrd/dcrec/secp256k1/v4.JacobianPoint) Bool)
(declare-fun affine.pt (github.com/decred/dcrd/dcrec/secp256k1/v4.FieldVal github.com/decred/dcrd/dcrec/secp256k1/v4.FieldVal) Pt)
(declare-fun sc.of (github.com/decred/dcrd/dcrec/secp256k1/v4.ModNScalar) Sc)
(declare-fun sc.ser (Sc) Bytes)
(declare-fun sc.frombytes (Bytes) Sc)
; a scalar's serialisation is canonical (32 bytes, below the group order): parsing it gives the scalar back
(assert (forall ((x Sc)) (! (and (= (sc.frombytes (sc.ser x)) x) (= (blen (sc.ser x)) 32)) :pattern ((sc.ser x)))))
(assert (forall ((p Pt)) (! (and (= (blen (pt.ser p)) 33) (pt.parseok (pt.ser p)) (= (pt.parse (pt.ser p)) p)) :pattern ((pt.ser p)))))
(assert (forall ((j github.com/decred/dcrd/dcrec/secp256k1/v4.JacobianPoint)) (! (=> (jp.affine j) (= (affine.pt (github.com/decred/dcrd/dcrec/secp256k1/v4.JacobianPoint.X j) (github.com/decred/dcrd/dcrec/secp256k1/v4.JacobianPoint.Y j)) (jp.pt j))) :pattern ((jp.affine j)))))
; hash to curve, NUT-00: sha256(DS || msg), then sha256(h || le32(c)) for
; c = 0, 1, ... until 02 || hash parses as a point
;@strlit str.DS "Secp256k1_HashToCurve_Cashu_"
(declare-const str.DS Str)
(declare-fun le32 (Int) Bytes)
(assert (forall ((c Int)) (! (= (blen (le32 c)) 4) :pattern ((le32 c)))))
(define-fun h2c.cand ((h Bytes) (c Int)) Bytes (bcat (bytes1 2) (sha256 (bcat h (le32 c)))))
(define-unfold h2c.search ((h Bytes) (c Int)) Pt (ite (pt.parseok (h2c.cand h c)) (pt.parse (h2c.cand h c)) (h2c.search h (+ c 1))))
; HashToCurve gives up after 2^16 counters (never in practice): h2c.ok says it did not
(declare-fun h2c.ok (Bytes) Bool)
(define-fun h2c ((m Bytes)) Pt (h2c.search (sha256 (bcat (bytesOf str.DS) m)) 0))
(define-fun Yof ((s Str)) Str (hexenc (pt.ser (h2c (bytesOf s)))))

;@module dleq group hash strings hex
; HashE: sha256 of the concatenated hex of the uncompressed serialisations
(define-unfold hashe.cat ((a (Array Int Ref)) (h (Array Ref github.com/decred/dcrd/dcrec/secp256k1/v4.PublicKey)) (n Int)) Str (ite (<= n 0) str.empty (scat (hashe.cat a h (- n 1)) (hexenc (pt.seru (pk.pt (select h (select a (- n 1)))))))))
(define-fun hashe4 ((p1 Pt) (p2 Pt) (p3 Pt) (p4 Pt)) Bytes (sha256 (bytesOf (scat (scat (scat (scat str.empty (hexenc (pt.seru p1))) (hexenc (pt.seru p2))) (hexenc (pt.seru p3))) (hexenc (pt.seru p4))))))
(declare-fun dleq.verdict (cashu.Proof github.com/decred/dcrd/dcrec/secp256k1/v4.PublicKey) Bool)

;@module group.ax
;@attach-lemmas group
; abelian group and module laws
(assert (forall ((a Pt) (b Pt)) (! (= (padd a b) (padd b a)) :pattern ((padd a b)))))
(assert (forall ((a Pt) (b Pt) (c Pt)) (! (= (padd (padd a b) c) (padd a (padd b c))) :pattern ((padd (padd a b) c)))))
(assert (forall ((a Pt)) (! (= (padd a pt.O) a) :pattern ((padd a pt.O)))))
(assert (forall ((a Pt)) (! (= (padd a (pneg a)) pt.O) :pattern ((pneg a)))))
(assert (forall ((k Sc) (a Pt) (b Pt)) (! (= (smul k (padd a b)) (padd (smul k a) (smul k b))) :pattern ((smul k (padd a b))))))
(assert (forall ((k Sc) (l Sc) (a Pt)) (! (= (smul (sadd k l) a) (padd (smul k a) (smul l a))) :pattern ((smul (sadd k l) a)))))
(assert (forall ((k Sc) (l Sc) (a Pt)) (! (= (smul (smulS k l) a) (smul k (smul l a))) :pattern ((smul (smulS k l) a)))))
(assert (forall ((k Sc) (l Sc) (a Pt)) (! (= (smul k (smul l a)) (smul l (smul k a))) :pattern ((smul k (smul l a))))))
(assert (forall ((k Sc) (a Pt)) (! (= (smul (sneg k) a) (pneg (smul k a))) :pattern ((smul (sneg k) a)))))
(assert (forall ((k Sc) (l Sc)) (! (= (smulS k l) (smulS l k)) :pattern ((smulS k l)))))
(assert (forall ((k Sc) (l Sc)) (! (= (sadd k l) (sadd l k)) :pattern ((sadd k l)))))
(assert (forall ((a Pt)) (! (= (pneg (pneg a)) a) :pattern ((pneg (pneg a))))))
(assert (forall ((a Pt) (b Pt)) (! (= (pneg (padd a b)) (padd (pneg a) (pneg b))) :pattern ((pneg (padd a b))))))
; prime order: a non-identity point determines the scalar
(assert (forall ((k Sc) (l Sc) (p Pt)) (! (=> (and (= (smul k p) (smul l p)) (not (= p pt.O))) (= k l)) :pattern ((smul k p) (smul l p)))))

;@module errors
(declare-fun err.is (Iface Iface) Bool)
(assert (forall ((e Iface)) (! (=> (not (= e nil.Iface)) (err.is e e)) :pattern ((err.is e e)))))

;@module db hex group
; Ghost model of storage.MintDB (DESIGN.md §5.1).  Keys: Y (hex) for the two
; proof tables, quote id for the quote tables, B_ (hex) for blind_signatures.
;@ghost db.spent (Array Str Bool)
;@ghost db.spentrow (Array Str mint/storage.DBProof)
;@ghost db.pending (Array Str Bool)
;@ghost db.pendrow (Array Str mint/storage.DBProof)
;@ghost db.mq (Array Str Bool)
;@ghost db.mqrow (Array Str mint/storage.MintQuote)
;@ghost db.melt (Array Str Bool)
;@ghost db.meltrow (Array Str mint/storage.MeltQuote)
;@ghost db.sig (Array Str Bool)
;@ghost db.sigrow (Array Str SigRow)
;@ghost db.ks (Array Str Bool)
;@ghost db.ksrow (Array Str mint/storage.DBKeyset)
;@ghost db.seedset Bool
;@ghost db.seed Bytes
;@ghost db.issuedtotal Int
;@ghost db.redeemedtotal Int
;@ghost db.faults Int
;@monotone db.faults
;@grows db.spent db.sig db.mq db.melt db.ks
(declare-datatypes ((SigRow 0)) (((mk.SigRow (SigRow.Amount Int) (SigRow.C_ Str) (SigRow.Id Str) (SigRow.E Str) (SigRow.S Str)))))
(define-fun rowOf ((p cashu.Proof)) mint/storage.DBProof (mk.mint/storage.DBProof (cashu.Proof.Amount p) (cashu.Proof.Id p) (cashu.Proof.Secret p) (Yof (cashu.Proof.Secret p)) (cashu.Proof.C p) (cashu.Proof.Witness p) str.empty))
(define-fun pendRowOf ((p cashu.Proof) (q Str)) mint/storage.DBProof (mk.mint/storage.DBProof (cashu.Proof.Amount p) (cashu.Proof.Id p) (cashu.Proof.Secret p) (Yof (cashu.Proof.Secret p)) (cashu.Proof.C p) (cashu.Proof.Witness p) q))

;@module fees sums
(define-unfold fee.sum ((a (Array Int cashu.Proof)) (h (Array Str Bool)) (v (Array Str crypto.MintKeyset)) (n Int)) Int (ite (<= n 0) 0 (+ (fee.sum a h v (- n 1)) (ite (select h (cashu.Proof.Id (select a (- n 1)))) (nn (crypto.MintKeyset.InputFeePpk (select v (cashu.Proof.Id (select a (- n 1)))))) 0))))
(define-fun fee.tx ((a (Array Int cashu.Proof)) (h (Array Str Bool)) (v (Array Str crypto.MintKeyset)) (n Int)) Int (div (mod (+ (mod (fee.sum a h v n) 18446744073709551616) 999) 18446744073709551616) 1000))

;@module fees.ax
;@attach-proved fees
(assert (forall ((a (Array Int cashu.Proof)) (h (Array Str Bool)) (v (Array Str crypto.MintKeyset)) (n Int)) (! (>= (fee.sum a h v n) 0) :pattern ((fee.sum a h v n)))))

;@module sumlemmas
(define-fun store.sig ((a (Array Int cashu.BlindedSignature)) (i Int) (v cashu.BlindedSignature)) (Array Int cashu.BlindedSignature) (store a i v))
(define-fun store.proof ((a (Array Int cashu.Proof)) (i Int) (v cashu.Proof)) (Array Int cashu.Proof) (store a i v))
(define-fun store.bm ((a (Array Int cashu.BlindedMessage)) (i Int) (v cashu.BlindedMessage)) (Array Int cashu.BlindedMessage) (store a i v))

;@module ln
;@ghost ln.attempted (Array Str Bool)
; the last answers of the backend (C05: postconditions are stated over them,
; and hold for every value they can take)
;@ghost ln.pay mint/lightning.PaymentStatus
;@ghost ln.payerr Iface
;@ghost ln.npay Int
;@ghost ln.st mint/lightning.PaymentStatus
;@ghost ln.sterr Iface
;@ghost ln.nst Int
;@ghost ln.qfaults Int
;@monotone ln.qfaults ln.npay ln.nst
(declare-fun grpc.code (Iface) Int)
; amount (msat) and payment hash a BOLT11 invoice string encodes
(declare-fun decode.msat (Str) Int)
(declare-fun decode.hash (Str) Str)
(assert (forall ((s Str)) (! (and (<= 0 (decode.msat s)) (< (decode.msat s) 9223372036854775808)) :pattern ((decode.msat s)))))
(assert (= (grpc.code nil.Iface) 0))
(declare-fun ln.fee (Int) Int)

;@module mapsum sums
; Sum of the values of a string-keyed map, and the fold of an enumeration of
; its keys. For every `range` over such a map the engine emits
; esum.str(enum, vals, len) = mapsum.str(keys, vals) for the (arbitrary, fresh)
; enumeration of that loop: addition is commutative (assumption A-FOLD).
(declare-fun mapsum.str ((Array Str Bool) (Array Str Int)) Int)
(define-unfold esum.str ((k (Array Int Str)) (v (Array Str Int)) (n Int)) Int (ite (<= n 0) 0 (+ (esum.str k v (- n 1)) (nn (select v (select k (- n 1)))))))
;@module mapsum.ax
;@attach-proved mapsum
(assert (forall ((k (Array Int Str)) (v (Array Str Int)) (n Int)) (! (>= (esum.str k v n) 0) :pattern ((esum.str k v n)))))

;@module hd group
; BIP32: extended keys are immutable objects; derivation is a pure function of
; (parent, index) (assumption A-LIB2).
(declare-fun hd.master (Bytes) Ref)
(declare-fun hd.derive (Ref Int) Ref)
(declare-fun hd.privsc (Ref) Sc)
(declare-fun be64 (Bytes) Int)
(assert (forall ((b Bytes)) (! (and (<= 0 (be64 b)) (< (be64 b) 18446744073709551616)) :pattern ((be64 b)))))

;@module clock
;@ghost clk.now Int

;@module schnorr group
;@gotype github.com/btcsuite/btcd/btcec/v2/schnorr.Signature
(declare-fun sig.parseok (Bytes) Bool)
(declare-fun sig.parse (Bytes) github.com/btcsuite/btcd/btcec/v2/schnorr.Signature)
(declare-fun sig.ok (github.com/btcsuite/btcd/btcec/v2/schnorr.Signature Bytes Pt) Bool)

;@module nut20 strings
; NUT-20 message: quote id followed by the B_ of every output in order
(define-unfold cat.bm.B_ ((q Str) (a (Array Int cashu.BlindedMessage)) (n Int)) Str (ite (<= n 0) q (scat (cat.bm.B_ q a (- n 1)) (cashu.BlindedMessage.B_ (select a (- n 1))))))

;@module locks
;@ghost hvs.last Bool
;@ghost hvs.calls Int
;@monotone hvs.calls

;@module nut10
(declare-fun nut10.ok (Str) Bool)
(declare-fun nut10.parse (Str) cashu/nuts/nut10.WellKnownSecret)

;@module reflect
(declare-fun deepeq (Iface Iface) Bool)
(assert (forall ((a Iface)) (! (deepeq a a) :pattern ((deepeq a a)))))

;@module lockspec nut10
;@ghost hvs.fails Int
;@monotone hvs.fails
; verdicts of the lock verifiers as functions of (proof, secret, time read
; during the call) - assumed deterministic (DESIGN.md §8 C12/C13)
(declare-fun p2pk.verdict (cashu.Proof cashu/nuts/nut10.WellKnownSecret Int) Iface)
(declare-fun htlc.verdict (cashu.Proof cashu/nuts/nut10.WellKnownSecret Int) Iface)
(declare-fun nut11.keysok (cashu/nuts/nut10.WellKnownSecret) Bool)
(declare-fun nut11.keysof (cashu/nuts/nut10.WellKnownSecret) Ref)
(declare-fun nut11.keyserr (cashu/nuts/nut10.WellKnownSecret) Iface)
(declare-fun tags.ok (Ref) Bool)
(declare-fun tags.parse (Ref) cashu/nuts/nut11.P2PKTags)
(declare-fun tags.err (Ref) Iface)

;@module hashiface
(declare-fun hh.size (Iface) Int)

;@module keysets group hd
; NUT-02 keyset id as a function of the amount -> public key map (contents)
(declare-fun ksid ((Array Int Bool) (Array Int Ref) (Array Ref github.com/decred/dcrd/dcrec/secp256k1/v4.PublicKey)) Str)
; the id of the keyset generated from (master key, derivation index): all 60 keys are functions of the two
; (GenerateKeyset @keys, proved) and the id is a function of the keys (ksid), so the id is one too (A-KSID, assumed clause of GenerateKeyset)
(declare-fun hd.ksid (Ref Int) Str)
; choice function: THE active row of a keyset table (only meaningful under the store invariant dbkinv of the mint contracts)
(declare-fun ks.active ((Array Str Bool) (Array Str mint/storage.DBKeyset)) Str)
; choice axiom: if the table has an active row at all, ks.active picks one (consistent: Hilbert choice)
(assert (forall ((k (Array Str Bool)) (r (Array Str mint/storage.DBKeyset)) (id Str)) (! (=> (and (select k id) (mint/storage.DBKeyset.Active (select r id))) (and (select k (ks.active k r)) (mint/storage.DBKeyset.Active (select r (ks.active k r))))) :pattern ((select k id) (select r id) (ks.active k r)))))

;@module http bytes strings
; Ghost model of one HTTP exchange (DESIGN.md §5.4): the status line and the
; body written to the http.ResponseWriter of the handler under verification.
; http.status == 0: nothing written yet (net/http then answers 200 at the first Write).
;@ghost http.status Int
;@ghost http.body Bytes
; recorders (contract clause `records`): the error the mint operation / the
; request decoder returned to the handler, and how often each was called
;@ghost api.err Iface
;@ghost api.calls Int
;@ghost dec.err Iface
;@ghost dec.calls Int
; encoding/json output as a function of the marshalled interface value
(declare-fun json.enc (Iface) Bytes)
; (*url.URL).String() of an (immutable during the exchange) URL object
(declare-fun url.str (Ref) Str)
; what io.ReadAll reads from a request body reader
(declare-fun io.content (Iface) Bytes)

;@module walletdb strings
; Ghost model of the wallet's NUT-13 counters (DESIGN.md §5.3):
;   wdb.counter[k]      the counter stored for keyset k (storage.WalletDB)
;   wal.derivedupto[k]  end of the counter range the wallet last derived outputs from
;   wal.signedupto[k]   every counter below it may have been signed by a mint:
;                       raised to derivedupto by every request that has outputs signed
;@ghost wdb.counter (Array Str Int)
;@ghost wal.derivedupto (Array Str Int)
;@ghost wal.signedupto (Array Str Int)
; Restore bookkeeping (C19): number of restore batches the mint answered with at least one
; signature, and number of successful IncrementKeysetCounter calls
;@ghost rst.sigbatches Int
;@ghost wdb.saves Int
; keyset id stored with a melt quote (the keyset its NUT-08 change outputs were derived from)
;@ghost wdb.meltchange (Array Str Str)

;@module wfees sums
; Input fees as the wallet computes them (wallet.feesForProofs): the active
; keyset's ppk for proofs of the active keyset, the inactive keyset's ppk for
; known inactive keysets, nothing for unknown ids.
(define-unfold wfee.sum ((a (Array Int cashu.Proof)) (aid Str) (appk Int) (ik (Array Str Bool)) (iv (Array Str crypto.WalletKeyset)) (n Int)) Int (ite (<= n 0) 0 (+ (wfee.sum a aid appk ik iv (- n 1)) (ite (= aid (cashu.Proof.Id (select a (- n 1)))) (nn appk) (ite (select ik (cashu.Proof.Id (select a (- n 1)))) (nn (crypto.WalletKeyset.InputFeePpk (select iv (cashu.Proof.Id (select a (- n 1)))))) 0)))))
;@appendsum cashu.Proof wfee.sum
;@module wfees.ax
;@attach-proved wfees
(assert (forall ((a (Array Int cashu.Proof)) (aid Str) (appk Int) (ik (Array Str Bool)) (iv (Array Str crypto.WalletKeyset)) (n Int)) (! (>= (wfee.sum a aid appk ik iv n) 0) :pattern ((wfee.sum a aid appk ik iv n)))))

;@module sendrec
; recorders of wallet.swapToSend calls (contract clause `records`)
;@ghost snd.err Iface
;@ghost snd.calls Int

;@module clockt
; time.Time values: time.Now() reads the ghost clock clk.t (arbitrary at every reading);
; (time.Time).After is an uninterpreted strict order test
;@gotype time.Time
;@ghost clk.t time.Time
(declare-fun time.after (time.Time time.Time) Bool)
