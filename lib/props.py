import glob
import json
import os
import re
import subprocess
import sys
import time

ROOT = os.path.dirname(os.path.dirname(os.path.abspath(__file__)))
REPO = os.environ.get("VERIF_REPO", "/repo")

DROPPED = [
    "termination (partial correctness only)",
    "goroutine interleaving and sync.Mutex semantics (sequential tier)",
    "floating point (uninterpreted)",
    "unsafe/cgo, recover, reflection (reflect.DeepEqual uninterpreted), finalizers, memory exhaustion",
    "wall-clock time and randomness (arbitrary values)",
    "string and byte contents beyond the uninterpreted operators of the prelude",
    "slice aliasing through sub-slices and append spare capacity (each occurrence listed under abstractions)",
]

GLOBAL_ASSUMPTIONS = [
    "A-ENG: govc (go/ssa -> SMT translation, contract parser), go/ssa, go/types, z3 4.8.12, z3 5.1.0, cvc5 1.0 are correct",
    "A-META: per-operation two-state contracts + representation invariant imply the property over all finite sequential histories (induction on the history)",
    "A-ARCH: linux/amd64, int and uint are 64 bit; machine integers are modelled exactly (wrap-around), contracts use mathematical integers; no slice (other than []byte) or map has more than 2^48 elements (address space)",
    "A-NONNIL: receivers and pointer parameters of the functions under contract are non-nil unless declared nullable",
    "A-LIB1: library functions listed in contracts/pure.txt modify nothing reachable from their arguments and do not panic on arguments satisfying their stated precondition",
]


def load_known():
    p = os.path.join(ROOT, "known_findings.json")
    if not os.path.exists(p):
        return []
    return json.load(open(p)).get("findings", [])


def norm_name(name):
    """Obligation names carry ordinals that move with harmless edits
    (#k of a call site). The known-findings file matches on the name with
    ordinals kept; see DESIGN.md §7.4."""
    return name


def known_fn(fn):
    return fn.replace("(", "").replace(")", "").replace("*", "")


def short_fn(fn):
    return fn.replace("github.com/elnosh/gonuts/", "")


def run_govc(pid, tier, outdir, extra=None):
    timeout = 30 if tier == "quick" else 120
    cmd = [os.path.join(ROOT, "bin", "govc"), "-repo", REPO, "-verif", ROOT, "-props", pid,
           "-out", outdir, "-timeout", str(timeout), "-j", "12"]
    if tier != "quick":
        # thorough: vacuity probes get 10 s instead of 2 s (an inconsistent context is found more reliably)
        cmd += ["-probe", "10"]
    if extra:
        cmd += extra
    env = dict(os.environ)
    for k in ("GOFLAGS", "GOTOOLCHAIN", "GOSUMDB", "GOPROXY"):
        env.pop(k, None)
    p = subprocess.run(cmd, stdout=subprocess.PIPE, stderr=subprocess.STDOUT, text=True, env=env)
    res_path = os.path.join(outdir, "results.json")
    res = json.load(open(res_path)) if os.path.exists(res_path) else None
    return p.returncode, p.stdout, res


def run_property(pid, tier, seed):
    t0 = time.time()
    # seed tests redirect evidence so that the committed files (unchanged tree) are not clobbered
    ev_dir = os.environ.get("VERIF_EVIDENCE_DIR") or os.path.join(ROOT, "evidence")
    os.makedirs(ev_dir, exist_ok=True)
    os.makedirs(os.path.join(ROOT, "replays", pid), exist_ok=True)
    ev_path = os.path.join(ev_dir, pid + ".json")
    if os.path.exists(ev_path):
        os.remove(ev_path)
    if not os.path.exists(os.path.join(ROOT, "bin", "govc")):
        subprocess.run([os.path.join(ROOT, "setup.sh")], check=False, stdout=subprocess.DEVNULL)
    out_root = os.environ.get("VERIF_OUT_DIR") or os.path.join(ROOT, "out")
    outdir = os.path.join(out_root, pid)
    # obligations behind listed known findings get a short solver budget
    fast = os.path.join(out_root, pid + ".fast.txt")
    os.makedirs(out_root, exist_ok=True)
    with open(fast, "w") as fh:
        for k in load_known():
            if k.get("property") == pid and k.get("status") == "open" and k.get("obligation"):
                fh.write("%s\t%s\n" % (known_fn(k["fn"]).replace("mint.Mint", "mint.Mint"), k["obligation"]))
    rc, log, res = run_govc(pid, tier, outdir, ["-fast", fast])
    if res is None or res.get("errors"):
        print(log)
        print("check %s: govc failed to load or translate the repository (exit 2)" % pid)
        # a tree that does not load/compile cannot be judged
        return 2
    obls = res["obligations"]
    if not obls:
        print("check %s: no obligations generated (vacuous) - exit 2" % pid)
        return 2
    known = [k for k in load_known() if k.get("property") == pid and k.get("status") == "open"]
    broken = []      # vacuity / engine problems
    failed = []      # real failed obligations
    discharged = []
    for o in obls:
        if o["kind"] == "vacuity":
            if not o["ok"]:
                broken.append(o)
            continue
        if o["kind"] == "engine":
            broken.append(o)
            continue
        if o["ok"]:
            discharged.append(o)
        else:
            failed.append(o)
    # bounded stand-ins
    import bounded
    bres = bounded.run(pid, tier, seed)
    violations = []
    known_hits = []
    for o in failed:
        hit = None
        for k in known:
            if known_fn(k["fn"]) == known_fn(short_fn(o["fn"])) and re.fullmatch(k["obligation"], o["name"]):
                hit = k
                break
        if hit:
            known_hits.append((hit, o))
        else:
            violations.append(o)
    for b in bres:
        for f in b.get("failures", []):
            hit = None
            for k in known:
                if k.get("bounded") == b["harness"] and k.get("witness") == f.get("witness"):
                    hit = k
            if hit:
                known_hits.append((hit, {"fn": "bounded:" + b["harness"], "name": f.get("witness", ""), "src": f.get("msg", "")}))
            else:
                violations.append({"fn": "bounded:" + b["harness"], "name": f.get("witness", "case"), "kind": "bounded", "src": f.get("msg", ""),
                                   "status": "bounded-failure", "bounded_failure": f, "tags": [pid]})
    import replay
    vlines = []
    for o in violations:
        path, confirmed = replay.make_replay(pid, o, tier)
        line = "VIOLATION property=%s replay=%s" % (pid, path)
        if not confirmed:
            line += " no-failing-input-found"
        vlines.append(line)
    # evidence
    by_backend = {}
    solver_time = 0.0
    slow = []
    for o in obls:
        solver_time += o.get("time_s", 0)
        if o.get("ok") and o["kind"] != "vacuity":
            by_backend[o.get("solver", "?")] = by_backend.get(o.get("solver", "?"), 0) + 1
        slow.append((o.get("time_s", 0), short_fn(o["fn"]) + " :: " + o["name"]))
    slow.sort(reverse=True)
    trusted = set()
    abstractions = {}
    unconstrained = set()
    for f in res["functions"]:
        for t in f.get("trusted_callees") or []:
            trusted.add("assumed contract: " + short_fn(t))
        for t in f.get("uncontracted_callees") or []:
            unconstrained.add(short_fn(t))
        if f.get("abstractions"):
            abstractions[short_fn(f["fn"])] = f["abstractions"]
    samples = []
    picks = [o for o in discharged if o["kind"] in ("post", "callsite", "inv-pres", "lemma")][:3] or discharged[:3]
    for o in picks:
        q = ""
        try:
            txt = open(o["query"]).read()
            q = txt[txt.index("; ---- obligation"):][:1200]
        except Exception:
            pass
        samples.append({"function": short_fn(o["fn"]), "obligation": o["name"], "clause": o["src"], "backend": o.get("solver"),
                        "time_s": round(o.get("time_s", 0), 3), "negated_goal_smt": q})
    vac = {"probes": sum(1 for o in obls if o["kind"] == "vacuity"),
           "probes_ok": sum(1 for o in obls if o["kind"] == "vacuity" and o["ok"])}
    n_claimed = len(discharged) + len(failed)
    evidence = {
        "property_id": pid,
        "tier": tier,
        "seed": seed,
        "level": "proof",
        "coverage": {
            # proof level: every claimed obligation is discharged; obligations behind a
            # listed known finding are NOT claimed and are reported separately below
            "obligations": n_claimed - len([1 for _k, _o in known_hits if not str(_o.get("fn", "")).startswith("bounded:")]) - len(violations),
            "discharged": len(discharged),
            "obligations_generated": n_claimed,
            "obligations_behind_known_findings": len(known_hits),
            "checker_cmd": "bin/govc -props %s -timeout %d (z3-new 5.1.0 | cvc5 1.0 | z3 4.8.12 raced per obligation)" % (pid, 30 if tier == "quick" else 120),
            "trusted_base": sorted(trusted) + ["uncontracted callee (results arbitrary, reachable memory havocked): " + u for u in sorted(unconstrained)],
            "functions_under_contract": [short_fn(f["fn"]) for f in res["functions"]],
            "functions_translated": len(res["functions"]),
            "by_backend": by_backend,
            "solver_time_s": round(solver_time, 2),
            "slowest": [{"time_s": round(t, 2), "obligation": n} for t, n in slow[:5]],
            "vacuity": vac,
            "abstractions": abstractions,
            "dropped_by_translation": DROPPED,
            "bounded": bres,
            "known_findings": [{"fn": k["fn"], "obligation": o.get("name"), "what": k.get("what", "")} for k, o in known_hits],
            "undischarged": [{"fn": short_fn(o["fn"]), "obligation": o["name"], "status": o.get("status")} for o in failed],
            "samples": samples,
        },
        "assumptions": GLOBAL_ASSUMPTIONS + property_assumptions(pid),
        "wall_s": round(time.time() - t0, 2),
        "violations": len(violations),
    }
    # thorough tier: the must-fail corpus of this property (seeded changes that break it) is run
    # through the quick check on a scratch worktree; a seed that is no longer reported means the
    # machinery lost detection power (engine regression) -> the check is broken, not "held"
    corpus_broken = []
    if tier != "quick" and not os.environ.get("VERIF_REPO") and not os.environ.get("VERIF_NO_SEEDS") and not violations:
        corpus = must_fail_corpus(pid)
        evidence["coverage"]["must_fail_corpus"] = corpus
        corpus_broken = [n for n, r in corpus.items() if r == "missed"]
    json.dump(evidence, open(ev_path, "w"), indent=1)
    seen_k = []
    for k, o in known_hits:
        if k in seen_k:
            continue
        seen_k.append(k)
        names = sorted(set(oo["name"] for kk, oo in known_hits if kk is k))
        print("KNOWN-FINDING: property=%s %s fails %s - %s" % (pid, k["fn"], ", ".join(names), k.get("what", "")))
    for line in vlines:
        print(line)
    print("check %s [%s]: %d obligations, %d discharged, %d known findings, %d violations, %d broken probes, %.1fs" % (
        pid, tier, n_claimed, len(discharged), len(known_hits), len(violations), len(broken), time.time() - t0))
    for n in corpus_broken:
        print("BROKEN-CHECK must-fail corpus: seeded change %s (breaks %s) is not reported any more" % (n, pid))
    if corpus_broken and not violations:
        return 2
    if broken:
        for o in broken:
            print("BROKEN-CHECK %s :: %s (%s) %s" % (short_fn(o["fn"]), o["name"], o.get("status"), o.get("src", "")))
        if not violations:
            return 2
    return 1 if violations else 0


def property_assumptions(pid):
    p = os.path.join(ROOT, "contracts", "assumptions.json")
    if os.path.exists(p):
        return [a if a.startswith("A-") else "note: " + a for a in json.load(open(p)).get(pid, [])]
    return []


def must_fail_corpus(pid):
    """Runs lib/seedtest.py for the seeds of this property (those that still break it on the current tree)."""
    names = []
    for d in sorted(glob.glob(os.path.join(ROOT, "seeded", "*", "meta.json"))):
        m = json.load(open(d))
        if m.get("property") != pid or m.get("neutralised_by_fix") or m.get("outside_claim"):
            continue
        names.append(os.path.basename(os.path.dirname(d)))
    if not names:
        return {}
    env = dict(os.environ)
    env["VERIF_TIER"] = "quick"
    env["VERIF_SEED_RESULTS"] = "/tmp/verif_corpus_%s.json" % pid
    p = subprocess.run([sys.executable, os.path.join(ROOT, "lib", "seedtest.py")] + names, stdout=subprocess.PIPE, stderr=subprocess.STDOUT, text=True, env=env)
    out = {}
    for ln in p.stdout.splitlines():
        f = ln.split()
        if len(f) >= 2 and f[0] in names:
            out[f[0]] = "detected" if f[1] == "DETECTED" else ("missed" if f[1] == "missed" else " ".join(f[1:5]))
    try:
        os.remove(env["VERIF_SEED_RESULTS"])
    except OSError:
        pass
    return out
