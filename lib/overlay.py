"""Runs Go tests injected into /repo packages with `go test -overlay`."""
import json
import os
import subprocess
import tempfile

ROOT = os.path.dirname(os.path.dirname(os.path.abspath(__file__)))
REPO = os.environ.get("VERIF_REPO", "/repo")


def go_env():
    env = dict(os.environ)
    for k in ("GOTOOLCHAIN", "GOSUMDB"):
        env.pop(k, None)
    env["GOFLAGS"] = "-mod=mod"
    env["GOPROXY"] = "off"
    return env


def run_go_test(pkg_rel, files, run_regex, args=None, timeout=180, extra_env=None, tags=None, verbose=False):
    """files: list of source test files to inject into /repo/<pkg_rel>.
    Returns (returncode, output)."""
    tmp = tempfile.mkdtemp(prefix="verif_ov_")
    try:
        ov = {"Replace": {}}
        for f in files:
            ov["Replace"][os.path.join(REPO, pkg_rel, os.path.basename(f))] = f
        ovp = os.path.join(tmp, "ov.json")
        json.dump(ov, open(ovp, "w"))
        env = go_env()
        if args is not None:
            env["VERIF_REPLAY_ARGS"] = json.dumps(args)
        if extra_env:
            env.update(extra_env)
        cmd = ["go", "test", "-overlay", ovp, "-vet=off", "-count=1", "-timeout", "%ds" % timeout, "-run", run_regex]
        if tags:
            cmd += ["-tags", tags]
        if verbose:
            cmd.append("-v")
        cmd.append("./" + pkg_rel)
        try:
            p = subprocess.run(cmd, cwd=REPO, env=env, stdout=subprocess.PIPE, stderr=subprocess.STDOUT, text=True, timeout=timeout + 60)
            return p.returncode, p.stdout
        except subprocess.TimeoutExpired as e:
            return 124, "timeout: %s" % e
    finally:
        subprocess.run(["rm", "-rf", tmp])


def run_bounded(d, meta, tier, seed):
    files = [os.path.join(d, f) for f in meta["files"]]
    for h in meta.get("helpers", []):
        files.append(os.path.join(ROOT, h))
    env = {"VERIF_TIER": tier, "VERIF_SEED": str(seed)}
    rc, out = run_go_test(meta["pkg"], files, meta["run"], timeout=meta.get("timeout", 300), extra_env=env, verbose=True)
    res = {"harness": os.path.basename(d), "bound": meta.get("bound", ""), "label": "bounded (not counted as proved)", "cases": 0, "failures": []}
    for ln in out.splitlines():
        ln = ln.strip()
        if ln.startswith("VERIF-BOUNDED "):
            try:
                rec = json.loads(ln[len("VERIF-BOUNDED "):])
                res["cases"] += rec.get("cases", 0)
                res["failures"] += rec.get("failures", [])
            except Exception:
                pass
    if rc != 0 and not res["failures"]:
        res["failures"].append({"witness": "harness-error", "msg": out[-1500:]})
    return res
