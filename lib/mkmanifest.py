#!/usr/bin/env python3
"""Regenerates MANIFEST.json from the table below (kept in one place so that
the manifest is always valid and current)."""
import json
import os
import subprocess

ROOT = os.path.dirname(os.path.dirname(os.path.abspath(__file__)))

TECH = "contract-based deductive verification: weakest-precondition VCs generated from go/ssa of the real functions (govc), contracts in guarded comment files, discharged by z3/cvc5"

# id -> (claimed?, level text, level note, design ref)
CHECKS = {
    "C02": (True,
            "Per-operation no-inflation contracts proved for all inputs: Swap (sum of outputs + input fees <= sum of inputs, in mathematical integers, with the uint64 wrap-around of the input sum argued away), AmountChecked/OverflowAddUint64/UnderflowSubUint64 exact, TransactionFees = ceil(sum ppk/1000) as a spec function, signBlindedMessages copies amounts.",
            "Assumed: storage.MintDB and lightning.Client contracts (trusted interfaces), library contracts in contracts/lib.gvc, induction over histories (A-META). Not decided: the Lightning ledger itself.",
            "DESIGN.md §8 C02"),
}

NOT_APPLICABLE = {
    "C17": "whole-history, multi-party conservation law across wallets x mints x Lightning: needs the joint state of several processes in one assertion; no per-function contract can express it without restating the mint as an assumption (DESIGN.md §8 C17)",
}


def main():
    props = [json.loads(l) for l in open(os.path.join(ROOT, "properties.jsonl"))]
    hooks = []
    try:
        out = subprocess.run(["git", "-C", "/repo", "log", "--format=%H %s"], capture_output=True, text=True).stdout
        for ln in out.splitlines():
            h, s = ln.split(" ", 1)
            if s.startswith("verif hook:"):
                hooks.append(h)
    except Exception:
        pass
    checks = []
    na = []
    for p in props:
        pid = p["id"]
        c = CHECKS.get(pid)
        if c and c[0]:
            checks.append({
                "property_id": pid,
                "quick_cmd": "./check %s --tier quick" % pid,
                "thorough_cmd": "./check %s --tier thorough" % pid,
                "evidence_file": "/verif/evidence/%s.json" % pid,
                "replay_cmd_template": "./check --replay {path}",
                "engine": "govc",
                "level_claimed": {"category": "proof", "text": c[1], "design_ref": c[3]},
                "level_note": c[2],
                "technique": TECH,
            })
        else:
            na.append({"property_id": pid, "reason": NOT_APPLICABLE.get(pid, "not claimed yet: contracts for this property are not built/discharging in this round (see DESIGN.md); nothing is claimed about it")})
    m = {
        "version": 1,
        "setup_cmd": "./setup.sh",
        "hooks": {
            "guard": "verif",
            "enable": "go build tag `verif` (go/packages BuildFlags -tags=verif): only comment-only contract files zz_contracts_verif.go are guarded by it",
            "baseline_off_cmd": "cd /repo && GOFLAGS=-mod=mod go test -vet=off -count=1 ./...",
            "source_commits": list(reversed(hooks)),
            "add_only": True,
        },
        "engines": [{"name": "govc", "path": "/verif/govc", "serves_properties": [c["property_id"] for c in checks],
                     "kind_free_text": "verification-condition generator over go/ssa + contract language + SMT back ends (z3 4.8.12, z3 5.1.0, cvc5 1.0)"}],
        "checks": checks,
        "not_applicable": na,
        "notes": "Every check regenerates its obligations from /repo's working tree on every run. known_findings.json lists genuine defects that are recorded rather than repaired.",
    }
    json.dump(m, open(os.path.join(ROOT, "MANIFEST.json"), "w"), indent=1)


if __name__ == "__main__":
    main()
