#!/usr/bin/env python3
"""Regenerates MANIFEST.json from the table below (kept in one place so that
the manifest is always valid and current)."""
import json
import os
import subprocess

ROOT = os.path.dirname(os.path.dirname(os.path.abspath(__file__)))

TECH = "contract-based deductive verification: weakest-precondition VCs generated from go/ssa of the real functions (govc), contracts in guarded comment files, discharged by z3/cvc5"

# id -> (claimed?, level text, level note, design ref)
CHECKS = {
    "C01": (True,
            "Per-operation spend contracts over the ghost tables spent/pending, proved for all inputs: Swap and MeltTokens succeed only on inputs that were neither spent nor pending before and are pairwise distinct by Y (duplicates keyed on the secret), leave them spent (swap, paid melt) or locked (pending melt); spent only grows in every operation (frame); inputs of a melt are released only on the definitive-failure answers of C05; ProofsStateCheck reports the table contents; the invariant `no Y is both pending and spent` is preserved by every operation. RELY/GUARANTEE TIER (schedules at store/Lightning-call granularity): Swap and MeltTokens are verified a second time with the ghost store changing arbitrarily - within the declared rely clauses (spent proofs stay spent with their row, no step makes a proof both locked and spent, signatures stay) - before every MintDB / Lightning call; every such call of the verified function is itself proved to be a step the rely allows (guarantee obligations, ~80 discharged); a successful swap has its inputs spent under every interleaving. Three guarantee obligations FAIL and are listed as known findings: SaveProofs in Swap, AddPendingProofs and SaveProofs in MeltTokens can make a proof both locked and spent (check-then-act race, double spend shown by a deterministic interleaving replay).",
            "Sequential histories (induction over per-operation contracts) plus the rely/guarantee tier for interleavings at store/Lightning-call granularity of Swap and MeltTokens; the check-then-act windows the tier finds are open known findings (they are violations, not proofs); interleavings with operations outside the tier are an assumption (A-RG). Assumed: storage.MintDB contracts (atomic insert-if-absent of SaveProofs/AddPendingProofs; kept honest by the bounded conformance harness bounded/dbconf), A-META, hash_to_curve as an uninterpreted function Yof(secret). Rely/guarantee tier: callees that themselves talk to the store are abstracted by a yield plus their own rg postconditions; atomicity of one MintDB call is A-DB; only the listed rely clauses constrain the other requests.",
            "DESIGN.md §8 C01"),
    "C02": (True,
            "The four per-operation inequalities of the statement proved in mathematical integers incl. uint64 wrap-around: Swap (sum outputs + ceil(sum ppk/1000) <= sum inputs), MintTokens (sum outputs <= quote amount), MeltTokens (inputs >= amount + fee reserve + input fees at the point where inputs are locked, under the stored-row invariant), fee limit handed to SendPayment/PayPartialAmount <= stored fee reserve; internal settlement only for the mint quote of the same invoice and hence the same amount; MPP melts never internal.",
            "Assumed: lightning.Client contracts A-LN1 (an invoice created for a sat encodes a*1000 msat and its payment hash), A-LN2 (FeeReserve pure and <= amount), A-LN3 (fresh payment hashes); storage.MintDB contracts; A-META. Not decided: the Lightning ledger itself, msat rounding of MPP.",
            "DESIGN.md §8 C02"),
    "C03": (True,
            "Legal transitions of a stored mint quote as a precondition of every UpdateMintQuoteState call site (UNPAID->PAID only when the backend reports settled, PAID->PENDING->ISSUED, revert to the pre-signing state); MintTokens: success implies the quote was PAID (after the poll) before and ISSUED after, outputs <= quote amount, signatures stored; an ISSUED quote is always refused; the invoice watcher re-reads the quote after its blocking wait (yield point) and only moves UNPAID to PAID. RELY/GUARANTEE TIER: MintTokens and GetMintQuoteState are verified a second time with other requests acting (within the rely: an issued quote stays issued, quotes and their amounts stay, signatures stay) before every store / Lightning call; the legal-transition precondition of every state write and the guarantee 'my own write is a step the rely allows' are obligations there. Four of them FAIL and are listed as known findings: both functions write a state they computed from an earlier read (two concurrent mint requests both issue; a poll writes PAID over ISSUED) - shown by deterministic interleaving replays.",
            "Sequential histories, the yield point of the invoice watcher, and the rely/guarantee tier for concurrent mint requests and polls (its failing obligations are open known findings, not proofs). NUT-20: nut20.VerifyMintQuoteSignature / SignMintQuote proved (loop invariant) to check / sign SHA-256 of the quote id followed by the B_ of EVERY output in request order; MintTokens proved to issue a quote whose stored record has a public key only after that verifier accepted the request's hex signature for (request quote id, request outputs, stored key); RequestMintQuote stores the key the request named (and none otherwise). Wallet side: wallet.MintTokens proved to send, for a quote that has a private key, the hex Schnorr signature of that key over this quote id and exactly the outputs it sends, in sending order (same spec message as the mint's verifier). Assumed: storage.MintDB and lightning.Client contracts, Schnorr unforgeability not decided. Rely/guarantee tier as for C01.",
            "DESIGN.md §8 C03"),
    "C04": (True,
            "verifyProofs proved to establish, for every input of Swap and MeltTokens: secret length <= 512, keyset id known in the map of ALL keysets, amount is a key of THAT keyset, C is hex and parses as a point, and pt(C) = k(id, amount) * hash_to_curve(secret) - the key taken from exactly (id, amount) of the proof, never from the active keyset; crypto.verify/Verify proved equivalent to that equation from the algebraic contracts of the secp256k1 calls they make; HashToCurve proved equal to the NUT-00 spec function (loop invariant over the counter search).",
            "Assumed: algebraic contracts of the decred secp256k1 library (A-LIB2: AsJacobian, ScalarMultNonConst, ToAffine, NewPublicKey, ParsePubKey, IsEqual), sha256/hex as uninterpreted functions. Hardness of forging C is not decided (crypto assumption). Completeness (honest proofs accepted) only through crypto.Verify's completeness clause.",
            "DESIGN.md §8 C04"),
    "C05": (True,
            "Outcome table of MeltTokens and GetMeltQuoteState as postconditions over the (arbitrary) answers of the Lightning interface, recorded in ghost variables: PAID only on Succeeded (pay call, or status lookup after a failed pay call) with that preimage stored and inputs spent; UNPAID and released only on failed pay + (not-found | lookup says Failed); everything else PENDING with inputs locked; polls adopt final answers, ambiguous answers change nothing; ProofsStateCheck resolves pending quotes first; legal melt-quote transitions at every UpdateMeltQuote call site.",
            "Assumed: lightning.Client adapters (lnd.go, cln.go) implement the interface contract; storage.MintDB contracts; scripts of several answers follow by induction over the per-call contracts (A-META).",
            "DESIGN.md §8 C05"),
    "C06": (True,
            "(a) zero-annotation no-panic sweep (index, slice bounds, nil map, division, type assertion, nil dereference, explicit panic, library preconditions such as strings.Repeat count >= 0) of the mint API functions under contract, with the representation invariant as only precondition; (b) failure atomicity: an error without storage/Lightning-query fault leaves spent, pending, signatures and quote rows unchanged (Swap, MintTokens, MeltTokens), i.e. validation provably precedes mutation.",
            "Panics inside third-party libraries are assumed away (A-LIB1). HTTP handlers are covered by C20 when claimed. Functions without contract are not swept (listed in evidence).",
            "DESIGN.md §8 C06"),
    "C07": (True,
            "A process can only die between two durable effects, and the durable effects of an operation are exactly its store / Lightning calls: boundary invariants are asserted in the state right before every such call and at every return (the state a restart would find, for all inputs) of Swap, MintTokens, MeltTokens and RotateKeyset, and the same points cover a storage error injected at the call (the error return is a boundary too). Safety boundaries (newly stored signatures imply spent inputs / ISSUED quote; payment only with locked inputs) are proved at every point; reordering effects (signatures before spending, ISSUED after storing) fails a boundary. The atomicity boundaries that fail because operations span several transactions are genuine defects, confirmed by crash-injection replays and listed as known findings.",
            "Assumed: SQLite transaction atomicity and durability, restart = LoadMint on the same store (LoadMint itself is only swept partially). Known findings (open): multi-transaction windows of Swap, MintTokens, MeltTokens (lock vs. PENDING, internal settlement), RotateKeyset.",
            "DESIGN.md §8 C07"),
    "C08": (True,
            "Observation point = what wallet/client marshals and posts. Proved: the value handed to json.Marshal in PostSwap and PostMeltBolt11 is the request with every input's DLEQ pointer nil (call-site obligation for all request values; inputsWithoutDLEQ proved to copy every other field unchanged); static shape obligations (go/types, regenerated every run) pin the exported field lists of all seven request types and of BlindedMessage / Proof / DLEQProof, so that only swap and melt requests can carry proofs at all, outputs can carry neither a secret nor a blinding factor, and any new field fails the check; mint, restore, state-check and quote requests therefore have no position that could hold r, a DLEQ proof or an output secret. Token construction strips or includes DLEQ exactly as requested (contracts of NewTokenV3/NewTokenV4, shared with C14).",
            "NOT decided: covert encodings inside opaque strings (a secret placed into Witness or Quote by wallet code is not tracked: no information-flow analysis), the websocket client, HTTP headers/URLs. Assumed: encoding/json emits exactly the exported fields of the value it is given.",
            "DESIGN.md §8 C08"),
    "C09": (True,
            "GenerateKeyset proved to produce, for all (master, index): the 60 keys at amounts 2^0..2^59 as the children H+0..H+59 of m/0'/0'/index' (private scalar and public point), with the given fee/active flag - the keyset is a function of seed and index; keyset id shape proved (\"00\" + 14 hex chars of a 32-byte digest), sorted concatenation bounded (bounded/keysetid); RotateKeyset: representation invariant (one active keyset, filed under its id) preserved, old keysets keep keys, fee and id, the stored row carries exactly (new id, old index + 1, requested fee, active), the old row is only deactivated; LOADMINT (restart, round 4): every stored keyset row is regenerated from the STORED seed (hd.master(db.seed)) with the row's own derivation index, fee and active flag (call-site clauses on crypto.GenerateKeyset inside the reconstruction loop); a first start generates index 0 with the configured fee and stores exactly that row as the active one; without config.RotateKeyset the loaded mint satisfies the representation invariant (exactly one active keyset, the one of the active row; every stored keyset filed under its own id with the row's fee, index and flag) and the store invariant is re-established; the info setter and the rotation write nothing else of the Mint (frame postconditions); signBlindedMessages signs only under the active keyset id and refuses others; verifyProofs takes the key from the proof's own keyset; TransactionFees charges each proof its own keyset's fee (spec sum).",
            "Assumed: BIP32 derivation (hdkeychain) as an uninterpreted pure function, A-FLOAT (math.Pow(2, i) exact for i < 64). Bounded: sorted concatenation in DeriveKeysetId. Known finding (open): RotateKeyset crash window (C07). LoadMint relies on the store invariant dbkinv at start (every row keyed by its own id, id = id generated from (stored seed, row index), representable fee, exactly one active row when there are rows) - the invariant LoadMint's first start and RotateKeyset's stored row establish (RotateKeyset's crash window is the open finding that breaks it); A-KSID: the generated keyset id is a function of (master, index) (assumed clause of GenerateKeyset, follows from the proved @keys and the assumed ksid); with config.RotateKeyset the invariant after loading is RotateKeyset's own conditional postcondition.",
            "DESIGN.md §8 C09"),
    "C10": (True,
            "Over an abstract prime-order group (commutative group + module laws): BlindMessage = Y + rG with Y = h2c(secret), SignBlindedMessage = k*B', UnblindSignature = C' - rK, Verify <=> C = k*h2c(secret) proved from the secp256k1 calls the real functions make; lemmas (discharged every run): unblinding k(Y+rG) with K=kG gives kY for every r (bdhke.unblind), a different key gives a different point on a non-identity Y (bdhke.otherkey), DLEQ: R1 = sG - eA = pG and R2 = sB' - eC' = pB' for s = p + ek (dleq.r1/r2), completeness of the proof GenerateDLEQ makes (dleq.complete) also through the hex transport of (e,s) (dleq.complete.wire), re-blinding C + rA = k(Y + rG) (dleq.reblind). HashE proved = sha256 of the concatenated hex uncompressed points (loop invariant); GenerateDLEQ proved to return e = H(pG, pB', aG, C'), s = p + e*a for its nonce p; VerifyDLEQ proved <=> e = H(sG - eA, sB' - eC', A, C'); nut12.VerifyBlindSignatureDLEQ proved <=> everything parses and that equation holds on the parsed values; VerifyProofDLEQ re-blinds with r exactly as specified (call-site clause) and refuses proofs without r; VerifyProofsDLEQ: every proof with DLEQ verified under the key of its own amount (missing key = failure). Mint: signBlindedMessages proved to emit, for every output, C_ = hex(k*B') under the active key of the output's amount and (e,s) = hex of the GenerateDLEQ proof for exactly (k, B', C_). Wallet: constructProofs proved to verify every DLEQ against the keyset key of the signature's amount, the B_ it sent and the C_ it got, to keep (e,s) unchanged and add its own r, and to unblind with the same key and r.",
            "Assumed: secp256k1 library contracts (abstract group), sha256/hex uninterpreted with inverse axioms, scalar serialisation canonical; dleq.complete* carry the explicit premise that the hash value round-trips through a scalar (fails with probability 2^-128). NOT decided: soundness of DLEQ against a cheating mint and single-field tamper evidence (random-oracle / collision arguments, not algebra); persistence of (e,s) through sqlite (bounded conformance of the store, see C15).",
            "DESIGN.md §8 C10"),
    "C11": (True,
            "HashToCurve proved equal to the NUT-00 spec function h2c (domain separator, sha256, little-endian uint32 counter from 0, 02-prefix, first counter that parses; error only after all 2^16 counters failed) by a loop invariant over the counter search; NUT-13 DeriveKeysetPath / DeriveSecret / DeriveBlindingFactor proved equal to the paths m/129372'/0'/(int(id) mod (2^31-1))'/counter'/{0,1} over uninterpreted BIP32 derivation and big-endian decoding, incl. the machine arithmetic (uint64 modulus, uint32 truncation); keyset id: prefix and truncation proved, sorted concatenation bounded (bounded/keysetid); mint keyset path m/0'/0'/index'.",
            "Assumed: sha256, secp256k1 point parsing, BIP32 (hdkeychain), hex as uninterpreted functions with the stated axioms (A-LIB2); NUT-13 functions under the precondition that keyset ids are 8 bytes and counters < 2^31. Bounded: sorted concatenation in DeriveKeysetId.",
            "DESIGN.md §8 C11"),
    "C12": (True,
            "VerifyP2PKLockedProof: what it hands to HasValidSignatures is pinned at the call site for all inputs (message = sha256(secret), threshold = n_sigs or 1, keys = lock key + co-signers only when a threshold is set; refund branch only after the locktime with the refund keys and threshold 1), acceptance without signatures only after the locktime without refund keys, witness non-empty and duplicate-free; ProofsSigAll <=> some input carries SIG_ALL wherever it sits; Swap: any SIG_ALL input => verifyBlindedMessages ran: all inputs SIG_ALL with equal key lists and thresholds, every output signed over sha256(decoded B_); MeltTokens refuses SIG_ALL inputs; ParseP2PKTags total (no panic) on all tag lists; the library's signing helpers sign exactly the message the verifier hashes. HasValidSignatures: each counted signature consumes a key (cardinality invariant proved); its full matching semantics is a BOUNDED stand-in (bounded/hvs).",
            "Assumed: determinism of JSON decoding of secrets/witnesses and of ParseP2PKTags/PublicKeys as functions of their inputs (named spec functions), schnorr library contracts, wall clock arbitrary. Bounded (not proved): matching semantics of HasValidSignatures within the bound stated in evidence. Schnorr unforgeability not decided.",
            "DESIGN.md §8 C12"),
    "C13": (True,
            "VerifyHTLCProof: before the locktime acceptance implies the witness preimage is hex, the lock value has 64 characters and hex(sha256(decoded preimage)) equals it, and with a threshold the signatures are non-empty, duplicate-free and HasValidSignatures accepted them over sha256(secret) with exactly the listed keys and threshold; after the locktime only the refund rule; SIG_ALL HTLC swaps: every output carries the verified preimage and signatures (call-site clauses in verifyBlindedMessages); the HTLC helpers sign exactly what the mint verifies (inputs and outputs).",
            "Assumed: as C12 (JSON determinism, schnorr contracts, clock). Bounded: HasValidSignatures matching semantics (bounded/hvs). SHA-256 preimage resistance not decided.",
            "DESIGN.md §8 C13"),
    "C14": (True,
            "Decode totality and accessor safety as zero-annotation no-panic obligations with precondition true (slice bounds of the version prefix, Token[0], TokenProofs[0], ...) on DecodeToken/V3/V4 and every accessor of both formats on arbitrary decoded values; Amount = sum of the proofs mod 2^64 in both formats (nested-loop invariants over spec sums); NewTokenV3 clears DLEQ when not requested; NewTokenV4 per-proof field conversion (amount, secret, witness, C decoded from hex) and DLEQ present iff requested and available, complete (e, s, r) or error. The full round trip through the real codecs incl. the V4 grouping map is a BOUNDED stand-in (bounded/token_roundtrip).",
            "Assumed: json/cbor/base64 libraries do not panic (A-LIB1). Bounded (not proved): round trip build->serialize->decode, within the bound in evidence.",
            "DESIGN.md §8 C14"),
    "C18": (True,
            "PARTIAL. Spec of the wallet's fee arithmetic over mathematical integers (ceil(sum of ppk / 1000) with the active / inactive keyset lookup of feesForProofs). Proved for all inputs: feesForProofs and feesForCount equal the spec (loop invariants); selectProofsToSend: a successful selection is worth at least the amount plus, when fees are requested, the input fee of exactly the proofs selected (loop invariant over the greedy search incl. its sorting, slicing and re-partitioning); selectProofsForAmount: where the inactive-keyset and the active-keyset selections are joined they cover the amount plus BOTH input fees (hence the fee of the whole, ceilings being subadditive); getProofsForAmount's offline path returns exactly amount + fee (equality test in the code, under contract); swapToSend: the fee added on top is at least the mint's fee for the amount outputs plus one proof, and (KNOWN FINDING, open) NOT always the fee for the proofs actually handed out; AmountSplit sums to its argument with distinct powers of two (shared with C14).",
            "NOT decided: 'a send of no more than balance minus fees always succeeds' (completeness of a greedy search; not expressible as a cheap contract), that the proofs handed out are unspent at the mint (mint-side state), removal from the spendable store on every path, the composition Send -> recipient Receive (two parties). Assumed: A-FEESUM (ppk sums and count*ppk below 2^63: no wrap in the fee arithmetic), amounts below 2^60, wallet proof getters return newly built slices.",
            "DESIGN.md §8 C18"),
    "C19": (True,
            "PARTIAL. Ghost model of the NUT-13 counters (stored counter per keyset, end of the last derived range, 'may be signed up to'). Proved for all inputs on the paths under contract: createBlindedMessages takes the counters old..old+len-1 in order and advances the caller's counter by exactly len (loop invariant; generateDeterministicSecret proved to derive secret and blinding factor from the two different children 0 and 1 of counter'); wallet.MintTokens and swapToSend (with and without spending condition, with and without change) start deriving at the stored counter, never below anything that may already be signed (call-site obligation), and on success leave the stored counter past everything they had signed - incl. the exact increment arithmetic over send and change outputs and the uint32 conversions; getActiveKeyset (keyset rotation, fee change) never moves a stored counter backwards; Restore saves the counter only after a batch with signatures and then sets it to exactly the scan position, starting from 0; stored counters are never advanced beyond the derived range (no gaps: @nogap); Melt derives its NUT-08 blank outputs from the counter as stored after the proof selection (which may swap and advance it); RECEIVE PATHS (round 4): createSwapRequest proved to derive its outputs from the STORED counter of exactly the mint's active keyset, never below anything that may be signed, and to hand back a request whose keyset is that keyset (interior pointer linked to the enclosing walletMint field, see DESIGN 00.9); swap raises 'may be signed' (PostSwap); Receive, ReceiveHTLC and ReclaimUnspentProofs advance that keyset's counter by exactly the number of outputs of the request (the nut11/nut14 output-witness helpers are proved to return the same list) and on success leave every stored counter past everything that may be signed (@past); swapProofs (melt at one mint, mint at the other) keeps it. Restore additionally saves the scan position after EVERY batch the mint had signatures for, whatever the state of the proofs (loop invariant 'batches with signatures == saves', ghost counters on PostRestore / IncrementKeysetCounter). AddMint is proved to save every keyset record with the counter the wallet has stored for it (never moves a counter; repaired in bf77751). Melt records the keyset of its change outputs with a quote that goes pending and CheckMeltQuoteState advances exactly that keyset's counter by the number of change signatures (repaired in ab3980a). One obligation pair FAILS and is an open known finding: swapToTrusted on a SIG_ALL token has outputs signed at the token's mint and never advances that counter (replayed on the real code).",
            "NOT covered (stated): the advance of Melt / CheckMeltQuoteState by the number of change signatures (the ghost 'may be signed' over-approximates there), wallet crash points between POST and counter increment, restore completeness over whole histories (a multi-party, whole-history statement), interleavings of wallet operations (Receive derives outside the wallet lock). Assumed: bolt implements the counter part of storage.WalletDB (Increment adds, SaveKeyset writes the record's counter, GetKeysetCounter reads it) - kept honest by the BOUNDED conformance harness bounded/wdbconf on the real bbolt store (labelled bounded, not proof); A-COUNTER: a counter range never crosses 2^31 (hardened index); A-KEYSET: keyset ids are 8 bytes and stored public keys are non-nil; history induction only over successful (fault-free) operations, as the property states.",
            "DESIGN.md §8 C19"),
    "C20": (True,
            "The response writer is ghost state (status, body). All 13 handlers of mint/server.go proved: the status is 200 or 400; when the mint operation was executed and refused, the answer is 400; (non-cached handlers) 200 only after exactly one successful execution; every error handed to writeErr is a cashu error value or a non-nil *cashu.Error that does NOT carry an internal (DB / Lightning backend) code - proved at every writeErr call site from error-shape postconditions that are themselves proved on every mint API function and helper (Swap, MintTokens, MeltTokens, Request/GetMintQuote*, Request/GetMeltQuote*, ProofsStateCheck, RestoreSignatures, verifyProofs, verifyBlindedMessages, signBlindedMessages, settle*, nut11/nut14 verifiers and parsers, decodeJsonReqBody); writeErr proved to answer 400 with the JSON of exactly that error. NUT-19 cache (swap and mint/bolt11): Cache.Get/Set proved against a map model (hit <=> key present, other keys untouched, stored value = given bytes); the key handed to Get and Set is method + URL + body bytes (call-site clauses); the operation runs only after a decode success and a cache miss; Set is reached only after the operation succeeded; a hit is answered with the cached bytes without executing; a refusal leaves the cache's key set unchanged; the bytes cached are the bytes written.",
            "Assumed: net/http, gorilla/mux (route variables), io.ReadAll, encoding/json as trusted contracts (json output is an uninterpreted function of the marshalled value, URL objects immutable during the exchange); logging is trusted to have no effect. NOT decided: byte-level JSON shapes (field names, enum strings, sorted key maps) - library behaviour driven by struct tags; websocket endpoint; the background cache janitor goroutine; routing/method matching (gorilla/mux).",
            "DESIGN.md §8 C20"),
    "C15": (True,
            "ProofsStateCheck: result is pointwise the ghost state in request order with the stored witness (SPENT over PENDING over UNSPENT), proved incl. the map-range resolution loop and the two IndexFunc closures; RestoreSignatures: returns exactly signed messages of the request, paired with the stored amount/id/C_/e/s; every successful Swap/MintTokens/MeltTokens stores its signatures / spent proofs.",
            "Assumed: storage.MintDB contracts (SQL text: bounded conformance when present); slices.IndexFunc modelled natively.",
            "DESIGN.md §8 C15"),
    "C16": (True,
            "TotalBalance = issued total - redeemed total (map folds proved against an order-independent sum); RequestMintQuote/RequestMeltQuote refuse amounts above the configured maxima and a balance above the maximum balance, as inequalities in mathematical integers; RetrieveMintInfo disables minting iff balance >= max balance. TOTALS FOLLOW EVERY OPERATION (round 4): a successful Swap adds exactly the sum of its signatures to the issued total and exactly the sum of its inputs to the redeemed total; a successful MintTokens adds exactly its signatures to the issued total and leaves the redeemed total; MeltTokens never issues and adds its inputs to the redeemed total exactly when it ends PAID (settleProofs); a refusal without storage fault leaves both totals; IssuedEcash / RedeemedEcash hand out the store's per-keyset maps unchanged (their sums are those totals).",
            "A-INV16: totals below 2^63 and redeemed <= issued (sqlite cannot store larger amounts; redeemed ecash was issued). The two SQL views are assumed (store contract).",
            "DESIGN.md §8 C16"),
}

NOT_APPLICABLE = {
    "C17": "whole-history, multi-party conservation law across wallets x mints x Lightning: needs the joint state of several processes in one assertion; no per-function contract can express it without restating the mint as an assumption (DESIGN.md §8 C17)",
}


def regen_names():
    """contracts/names.json: Go types of the locals the contracts name, from the unchanged tree (rename tolerance)."""
    import subprocess, os
    root = os.path.dirname(os.path.dirname(os.path.abspath(__file__)))
    govc = os.path.join(root, "bin", "govc")
    if os.path.exists(govc) and not subprocess.run(["git", "-C", "/repo", "status", "--porcelain"], capture_output=True, text=True).stdout.strip():
        subprocess.run([govc, "-names", os.path.join(root, "contracts", "names.json")], stdout=subprocess.DEVNULL)


def main():
    regen_names()
    props = [json.loads(l) for l in open(os.path.join(ROOT, "properties.jsonl"))]
    hooks = []
    try:
        out = subprocess.run(["git", "-C", "/repo", "log", "--format=%H %s"], capture_output=True, text=True).stdout
        for ln in out.splitlines():
            h, s = ln.split(" ", 1)
            if s.startswith("verif hook:"):
                hooks.append(h)
    except Exception:
        pass
    checks = []
    na = []
    for p in props:
        pid = p["id"]
        c = CHECKS.get(pid)
        if c and c[0]:
            checks.append({
                "property_id": pid,
                "quick_cmd": "./check %s --tier quick" % pid,
                "thorough_cmd": "./check %s --tier thorough" % pid,
                "evidence_file": "/verif/evidence/%s.json" % pid,
                "replay_cmd_template": "./check --replay {path}",
                "engine": "govc",
                "level_claimed": {"category": "proof", "text": c[1], "design_ref": c[3]},
                "level_note": c[2],
                "technique": TECH,
            })
        else:
            na.append({"property_id": pid, "reason": NOT_APPLICABLE.get(pid, "not claimed yet: contracts for this property are not built/discharging in this round (see DESIGN.md); nothing is claimed about it")})
    m = {
        "version": 1,
        "setup_cmd": "./setup.sh",
        "hooks": {
            "guard": "verif",
            "enable": "go build tag `verif` (go/packages BuildFlags -tags=verif): only comment-only contract files zz_contracts_verif.go are guarded by it",
            "baseline_off_cmd": "cd /repo && GOFLAGS=-mod=mod go test -vet=off -count=1 ./...",
            "source_commits": list(reversed(hooks)),
            "add_only": True,
        },
        "engines": [{"name": "govc", "path": "/verif/govc", "serves_properties": [c["property_id"] for c in checks],
                     "kind_free_text": "verification-condition generator over go/ssa + contract language + SMT back ends (z3 4.8.12, z3 5.1.0, cvc5 1.0)"}],
        "checks": checks,
        "not_applicable": na,
        "notes": "Every check regenerates its obligations from /repo's working tree on every run. known_findings.json lists genuine defects that are recorded rather than repaired.",
    }
    json.dump(m, open(os.path.join(ROOT, "MANIFEST.json"), "w"), indent=1)


if __name__ == "__main__":
    main()
