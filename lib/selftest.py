"""Engine self-test: ./check --selftest [--seeds]

1. canary corpus (selftest/canary): a small Go package with contracts that are
   deliberately right or wrong. The set of failing obligations must equal
   selftest/canary/expected.json exactly - a missing failure is a soundness
   hole in govc (e.g. the circular use of a loop invariant), an extra failure
   is an incompleteness that would become a false alarm.
2. with --seeds: the seeded-change corpus (seeded/*/patch.diff) through
   lib/seedtest.py (applies each patch to /repo, runs the registered checks,
   undoes it).
"""
import json
import os
import subprocess
import sys

ROOT = os.path.dirname(os.path.dirname(os.path.abspath(__file__)))


def canaries():
    cdir = os.path.join(ROOT, "selftest", "canary")
    out = os.path.join(ROOT, "out", "selftest")
    env = dict(os.environ)
    for k in ("GOFLAGS", "GOTOOLCHAIN", "GOSUMDB", "GOPROXY"):
        env.pop(k, None)
    p = subprocess.run([os.path.join(ROOT, "bin", "govc"), "-repo", cdir, "-verif", ROOT, "-patterns", "./...",
                        "-props", "S", "-out", out, "-timeout", "5"], stdout=subprocess.PIPE, stderr=subprocess.STDOUT, text=True, env=env)
    try:
        res = json.load(open(os.path.join(out, "results.json")))
    except Exception:
        print(p.stdout)
        print("selftest: govc did not produce results")
        return 2
    if res.get("errors"):
        print(p.stdout)
        return 2
    exp = set(json.load(open(os.path.join(cdir, "expected.json")))["must_fail"])
    got = set()
    n = 0
    for o in res["obligations"]:
        if o["kind"] == "vacuity":
            continue
        n += 1
        if not o["ok"]:
            got.add(o["fn"].replace("github.com/elnosh/gonuts/", "") + " :: " + o["name"])
    rc = 0
    for m in sorted(exp - got):
        print("SELFTEST-FAIL unsound: expected failure discharged: " + m)
        rc = 2
    for m in sorted(got - exp):
        print("SELFTEST-FAIL incomplete: unexpected failure: " + m)
        rc = 2
    print("selftest canaries: %d obligations, %d expected failures, %s" % (n, len(exp), "ok" if rc == 0 else "BROKEN"))
    return rc


def consistency():
    """Inconsistent background (prelude axioms + entry facts) would discharge
    everything. Every function's `requires-satisfiable` probe contains the
    prelude modules that function uses; here they all run with a 20 s budget
    (the per-check runs give them 2 s) and none may come back unsat."""
    out = os.path.join(ROOT, "out", "selftest-consistency")
    env = dict(os.environ)
    for k in ("GOFLAGS", "GOTOOLCHAIN", "GOSUMDB", "GOPROXY"):
        env.pop(k, None)
    p = subprocess.run([os.path.join(ROOT, "bin", "govc"), "-verif", ROOT, "-only", "vacuity:requires-satisfiable", "-probe", "20", "-out", out],
                       stdout=subprocess.PIPE, stderr=subprocess.STDOUT, text=True, env=env)
    try:
        res = json.load(open(os.path.join(out, "results.json")))
    except Exception:
        print(p.stdout[-2000:])
        return 2
    bad = [o for o in res["obligations"] if o["kind"] == "vacuity" and not o["ok"]]
    for o in bad:
        print("SELFTEST-FAIL inconsistent background: %s :: %s (%s)" % (o["fn"], o["name"], o.get("status")))
    n = sum(1 for o in res["obligations"] if o["kind"] == "vacuity")
    print("selftest consistency: %d probes (20 s each), %s" % (n, "ok" if not bad else "BROKEN"))
    return 2 if bad or n == 0 else 0


def main(args):
    rc = canaries()
    if "--fast" not in args:
        rc = consistency() or rc
    if "--harmless" in args:
        p = subprocess.run([sys.executable, os.path.join(ROOT, "lib", "harmlesstest.py")])
        rc = rc or p.returncode
    if "--seeds" in args:
        p = subprocess.run([sys.executable, os.path.join(ROOT, "lib", "seedtest.py")] + [a for a in args if a not in ("--seeds", "--harmless", "--fast")])
        rc = rc or p.returncode
    return rc
