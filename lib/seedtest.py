#!/usr/bin/env python3
"""Runs the registered checks against the seeded changes in /verif/seeded.
usage: lib/seedtest.py [seed-dir-names...]   (writes seeded/RESULTS.json)

The changes are applied to a scratch worktree of /repo's HEAD (never to /repo
itself); the checks are pointed at it with VERIF_REPO and write their evidence
and queries outside /verif."""
import json
import os
import subprocess
import sys

ROOT = os.path.dirname(os.path.dirname(os.path.abspath(__file__)))
WT = "/tmp/verif_seed_wt_%d" % os.getpid()


def sh(cmd, **kw):
    env = dict(os.environ)
    env["VERIF_EVIDENCE_DIR"] = "/tmp/verif_seed_evidence_%d" % os.getpid()
    env["VERIF_OUT_DIR"] = "/tmp/verif_seed_out_%d" % os.getpid()
    env["VERIF_REPO"] = WT
    return subprocess.run(cmd, shell=True, stdout=subprocess.PIPE, stderr=subprocess.STDOUT, text=True, env=env, **kw)


def restore():
    sh("git -C %s reset -q ; git -C %s checkout -q -- . ; git -C %s clean -fdq" % (WT, WT, WT))


def main():
    names = sys.argv[1:] or sorted(d for d in os.listdir(os.path.join(ROOT, "seeded")) if os.path.isdir(os.path.join(ROOT, "seeded", d)))
    res_path = os.environ.get("VERIF_SEED_RESULTS") or os.path.join(ROOT, "seeded", "RESULTS.json")
    results = json.load(open(res_path)) if os.path.exists(res_path) else {}
    sh("git -C /repo worktree remove --force %s" % WT)
    sh("rm -rf %s" % WT)
    r = sh("git -C /repo worktree add --detach %s HEAD" % WT)
    if r.returncode != 0:
        print(r.stdout)
        return 2
    manifest = json.load(open(os.path.join(ROOT, "MANIFEST.json")))
    claimed = [c["property_id"] for c in manifest["checks"]]
    try:
        for n in names:
            d = os.path.join(ROOT, "seeded", n)
            meta = json.load(open(os.path.join(d, "meta.json")))
            pid = meta["property"]
            patch = "patch.diff"
            if os.path.exists(os.path.join(d, "patch_current.diff")):
                patch = "patch_current.diff"  # the same change ported to the tree after the fix: commits
            r = sh("git -C %s apply --check %s/%s" % (WT, d, patch))
            if r.returncode != 0:
                r3 = sh("git -C %s apply -3 %s/%s" % (WT, d, patch))
                if r3.returncode != 0:
                    restore()
                    results[n] = {"property": pid, "applies": False, "note": r.stdout.strip()[:300]}
                    print(n, "patch does not apply to the current tree", flush=True)
                    continue
                sh("git -C %s reset -q" % WT)
            else:
                sh("git -C %s apply %s/%s" % (WT, d, patch))
            try:
                out = {}
                props = [pid] + [p for p in meta.get("also_check", []) if p != pid]
                for p in props:
                    if p not in claimed:
                        out[p] = {"exit": None, "note": "property not claimed"}
                        continue
                    c = sh("./check %s --tier quick" % p, cwd=ROOT)
                    lines = [l for l in c.stdout.splitlines() if l.startswith("VIOLATION") or l.startswith("KNOWN") or l.startswith("check ") or l.startswith("BROKEN")]
                    out[p] = {"exit": c.returncode, "lines": lines[-8:]}
                detected = any(v.get("exit") == 1 for v in out.values())
                results[n] = {"property": pid, "applies": True, "detected": detected, "checks": out}
                if meta.get("neutralised_by_fix"):
                    results[n]["neutralised_by_fix"] = meta["neutralised_by_fix"]
                print(n, "DETECTED" if detected else "missed", {k: v.get("exit") for k, v in out.items()}, flush=True)
            finally:
                restore()
            json.dump(results, open(res_path, "w"), indent=1)
    finally:
        sh("git -C /repo worktree remove --force %s" % WT)
        sh("rm -rf /tmp/verif_seed_out_%d /tmp/verif_seed_evidence_%d %s" % (os.getpid(), os.getpid(), WT))
    return 0


if __name__ == "__main__":
    sys.exit(main())
