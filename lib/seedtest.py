#!/usr/bin/env python3
"""Runs the registered checks against the seeded mutations in /verif/seeded.
usage: lib/seedtest.py [seed-dir-names...]   (writes seeded/RESULTS.json)"""
import json
import os
import subprocess
import sys

ROOT = os.path.dirname(os.path.dirname(os.path.abspath(__file__)))


def sh(cmd, **kw):
    env = dict(os.environ)
    env["VERIF_EVIDENCE_DIR"] = "/tmp/verif_seed_evidence"
    return subprocess.run(cmd, shell=True, stdout=subprocess.PIPE, stderr=subprocess.STDOUT, text=True, env=env, **kw)


def main():
    names = sys.argv[1:] or sorted(d for d in os.listdir(os.path.join(ROOT, "seeded")) if os.path.isdir(os.path.join(ROOT, "seeded", d)))
    res_path = os.path.join(ROOT, "seeded", "RESULTS.json")
    results = json.load(open(res_path)) if os.path.exists(res_path) else {}
    if sh("git -C /repo status --porcelain").stdout.strip():
        print("refusing: /repo has uncommitted changes")
        return 2
    manifest = json.load(open(os.path.join(ROOT, "MANIFEST.json")))
    claimed = [c["property_id"] for c in manifest["checks"]]
    for n in names:
        d = os.path.join(ROOT, "seeded", n)
        meta = json.load(open(os.path.join(d, "meta.json")))
        pid = meta["property"]
        patch = "patch.diff"
        if os.path.exists(os.path.join(d, "patch_current.diff")):
            patch = "patch_current.diff"  # the same change ported to the tree after the fix: commits
        r = sh("git -C /repo apply --check %s/%s" % (d, patch))
        if r.returncode != 0:
            r3 = sh("git -C /repo apply -3 %s/%s" % (d, patch))
            if r3.returncode != 0:
                sh("git -C /repo checkout -q -- . ; git -C /repo reset -q")
                results[n] = {"property": pid, "applies": False, "note": r.stdout.strip()[:300]}
                print(n, "patch does not apply to the current tree")
                continue
            sh("git -C /repo reset -q")
        else:
            sh("git -C /repo apply %s/%s" % (d, patch))
        try:
            out = {}
            props = [pid] + [p for p in meta.get("also_check", []) if p != pid]
            for p in props:
                if p not in claimed:
                    out[p] = {"exit": None, "note": "property not claimed"}
                    continue
                c = sh("./check %s --tier quick" % p, cwd=ROOT)
                lines = [l for l in c.stdout.splitlines() if l.startswith("VIOLATION") or l.startswith("KNOWN") or l.startswith("check ") or l.startswith("BROKEN")]
                out[p] = {"exit": c.returncode, "lines": lines[-8:]}
            detected = any(v.get("exit") == 1 for v in out.values())
            results[n] = {"property": pid, "applies": True, "detected": detected, "checks": out}
            print(n, "DETECTED" if detected else "missed", {k: v.get("exit") for k, v in out.items()})
        finally:
            # /repo was clean at the start (checked above): restoring tracked files undoes the patch
            sh("git -C /repo reset -q ; git -C /repo checkout -q -- .")
    json.dump(results, open(res_path, "w"), indent=1)
    return 0


if __name__ == "__main__":
    sys.exit(main())
