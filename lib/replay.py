"""From a failed obligation to a replay file (DESIGN.md §7)."""
import json
import os
import re
import subprocess
import sys

ROOT = os.path.dirname(os.path.dirname(os.path.abspath(__file__)))


def safe(s):
    return re.sub(r"[^A-Za-z0-9_.@#-]+", "_", s)[:150]


def make_replay(pid, o, tier):
    """Writes the replay file of a violated obligation. Returns (path, confirmed)."""
    d = os.path.join(ROOT, "replays", pid)
    os.makedirs(d, exist_ok=True)
    path = os.path.join(d, safe(o["fn"].split("/")[-1] + "__" + o["name"]) + ".json")
    rec = {
        "property": pid,
        "function": o["fn"],
        "obligation": o["name"],
        "kind": o.get("kind"),
        "clause": o.get("src"),
        "position": o.get("pos"),
        "solver_status": o.get("status"),
        "solver_outputs": o.get("outputs"),
        "model": o.get("model", ""),
        "query_file": o.get("query"),
        "confirmed_on_real_code": False,
    }
    confirmed = False
    if o.get("kind") == "bounded":
        rec["bounded_failure"] = o.get("bounded_failure")
        confirmed = True  # bounded harnesses run the real code
        rec["confirmed_on_real_code"] = True
    else:
        try:
            import drivers
            r = drivers.try_replay(pid, o, rec)
            if r is not None:
                rec["replay"] = r
                confirmed = bool(r.get("confirmed"))
                rec["confirmed_on_real_code"] = confirmed
        except Exception as e:  # a replay driver must never break the check
            rec["replay_error"] = repr(e)
    if not confirmed:
        rec["note"] = "no-failing-input-found: the obligation is not discharged on this tree; the solver output above is the reason"
    json.dump(rec, open(path, "w"), indent=1)
    return path, confirmed


def replay_file(path):
    rec = json.load(open(path))
    print(json.dumps({k: rec[k] for k in ("property", "function", "obligation", "clause", "solver_status", "confirmed_on_real_code")}, indent=1))
    if rec.get("replay", {}).get("cmd"):
        print("re-running:", rec["replay"]["cmd"])
        p = subprocess.run(rec["replay"]["cmd"], shell=True)
        return 1 if p.returncode != 0 else 0
    return 1
