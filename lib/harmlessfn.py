#!/usr/bin/env python3
"""Fast variant of lib/harmlesstest.py for edits of ONE function: applies harmless/Hxx/patch.diff to a
scratch worktree of /repo's HEAD and compares the failing obligations of the functions whose key contains
meta["function"] (plus every function of the same package that calls a new helper - i.e. the whole file's
package when meta["package_wide"] is set) with the unchanged tree. usage: lib/harmlessfn.py H27 H28 ..."""
import json, os, subprocess, sys
ROOT = os.path.dirname(os.path.dirname(os.path.abspath(__file__)))
WT = "/tmp/verif_harmlessfn_wt_%d" % os.getpid()
OUT = "/tmp/verif_harmlessfn_out_%d" % os.getpid()

def failing(repo, fn):
    env = dict(os.environ)
    for k in ("GOFLAGS", "GOTOOLCHAIN", "GOSUMDB", "GOPROXY"):
        env.pop(k, None)
    p = subprocess.run([os.path.join(ROOT, "bin", "govc"), "-repo", repo, "-verif", ROOT, "-out", OUT, "-timeout", "30", "-fn", fn],
                       stdout=subprocess.PIPE, stderr=subprocess.STDOUT, text=True, env=env)
    rp = os.path.join(OUT, "results.json")
    if not os.path.exists(rp):
        return None, p.stdout[-400:]
    res = json.load(open(rp))
    os.remove(rp)
    return set(o["fn"] + " :: " + o["name"] for o in res["obligations"] if not o["ok"] and o["kind"] != "vacuity"), len(res["obligations"])

def main():
    names = sys.argv[1:]
    subprocess.run("git -C /repo worktree remove --force %s; rm -rf %s; git -C /repo worktree add --detach %s HEAD" % (WT, WT, WT),
                   shell=True, stdout=subprocess.DEVNULL, stderr=subprocess.DEVNULL)
    res_path = os.path.join(ROOT, "harmless", "RESULTS.json")
    results = json.load(open(res_path)) if os.path.exists(res_path) else {}
    try:
        for n in names:
            d = os.path.join(ROOT, "harmless", n)
            meta = json.load(open(os.path.join(d, "meta.json")))
            fn = meta["govc_fn"] if "govc_fn" in meta else meta["function"]
            base, nb = failing(WT, fn)
            r = subprocess.run("git -C %s apply %s/patch.diff" % (WT, d), shell=True, stdout=subprocess.PIPE, stderr=subprocess.STDOUT, text=True)
            if r.returncode != 0:
                print(n, "patch does not apply:", r.stdout[:200]); continue
            after, na = failing(WT, fn)
            subprocess.run("git -C %s checkout -q -- . ; git -C %s clean -fdq" % (WT, WT), shell=True)
            if base is None or after is None:
                print(n, "engine error", nb, na); results[n] = ["engine error"]; continue
            new = sorted(after - base)
            results[n] = {"function": meta["function"], "false_alarms": new, "runner": "lib/harmlessfn.py (obligations of the edited function before vs. after)"}
            print(n, "obligations %s -> %s, false alarms: %d" % (nb, na, len(new)), flush=True)
            for x in new:
                print("   ", x[:200])
    finally:
        subprocess.run("git -C /repo worktree remove --force %s; rm -rf %s %s" % (WT, WT, OUT), shell=True, stdout=subprocess.DEVNULL, stderr=subprocess.DEVNULL)
        json.dump(results, open(res_path, "w"), indent=1, sort_keys=True)

if __name__ == "__main__":
    main()
