"""Bounded stand-ins (labelled bounded, never counted as proved)."""
import json
import os
import subprocess

ROOT = os.path.dirname(os.path.dirname(os.path.abspath(__file__)))

# property id -> list of harness names (directories under /verif/bounded)
HARNESSES = {
    # bounded conformance of the real sqlite store against the assumed storage.MintDB contracts (A-DB)
    "C01": ["dbconf"],
    "C03": ["dbconf"],
    "C15": ["dbconf"],
    "C16": ["dbconf"],
    "C11": ["keysetid"],
    "C09": ["keysetid"],
    "C14": ["token_roundtrip"],
    "C12": ["hvs"],
    "C13": ["hvs"],
    # bounded conformance of the real bbolt wallet store against the assumed storage.WalletDB counter contracts
    "C19": ["wdbconf"],
    # which error value the CLN adapter returns for which node answer (error identity is opaque in the proof model)
    "C05": ["clnconf"],
}


def run(pid, tier, seed):
    out = []
    for h in HARNESSES.get(pid, []):
        out.append(run_harness(h, tier, seed))
    return out


def run_harness(name, tier, seed):
    d = os.path.join(ROOT, "bounded", name)
    meta = json.load(open(os.path.join(d, "meta.json")))
    import overlay
    return overlay.run_bounded(d, meta, tier, seed)
