#!/usr/bin/env python3
"""False-alarm corpus: behaviour-preserving refactorings (harmless/H*/patch.diff, made by an
independent sub-agent that never saw /verif) are applied one at a time to a scratch worktree of
/repo's HEAD; the whole obligation suite is generated for the edited tree and the set of failing
obligations is compared with the unchanged tree. Every NEW failing obligation is a false alarm.
usage: lib/harmlesstest.py [H01 ...]   (writes harmless/RESULTS.json)"""
import json
import os
import subprocess
import sys

ROOT = os.path.dirname(os.path.dirname(os.path.abspath(__file__)))
WT = "/tmp/verif_harmless_wt_%d" % os.getpid()
OUT = "/tmp/verif_harmless_out_%d" % os.getpid()


def failing(repo):
    env = dict(os.environ)
    for k in ("GOFLAGS", "GOTOOLCHAIN", "GOSUMDB", "GOPROXY"):
        env.pop(k, None)
    subprocess.run([os.path.join(ROOT, "bin", "govc"), "-repo", repo, "-verif", ROOT, "-out", OUT, "-timeout", "30"],
                   stdout=subprocess.DEVNULL, stderr=subprocess.DEVNULL, env=env)
    res = json.load(open(os.path.join(OUT, "results.json")))
    return set(o["fn"] + " :: " + o["name"] for o in res["obligations"] if not o["ok"] and o["kind"] != "vacuity")


def main():
    names = sys.argv[1:] or sorted(d for d in os.listdir(os.path.join(ROOT, "harmless")) if d.startswith("H"))
    subprocess.run("git -C /repo worktree remove --force %s; rm -rf %s; git -C /repo worktree add --detach %s HEAD" % (WT, WT, WT),
                   shell=True, stdout=subprocess.DEVNULL, stderr=subprocess.DEVNULL)
    res_path = os.path.join(ROOT, "harmless", "RESULTS.json")
    results = json.load(open(res_path)) if os.path.exists(res_path) else {}
    try:
        base = failing(WT)
        for n in names:
            d = os.path.join(ROOT, "harmless", n)
            if subprocess.run(["git", "-C", WT, "apply", os.path.join(d, "patch.diff")]).returncode != 0:
                results[n] = {"applies": False}
                print(n, "does not apply")
                continue
            got = failing(WT)
            new = sorted(got - base)
            results[n] = {"applies": True, "false_alarms": [x.replace("github.com/elnosh/gonuts/", "") for x in new]}
            print(n, "false alarms: %d" % len(new), flush=True)
            for x in new[:6]:
                print("   ", x[:160])
            subprocess.run("git -C %s checkout -q -- . ; git -C %s clean -fdq" % (WT, WT), shell=True)
    finally:
        subprocess.run("git -C /repo worktree remove --force %s; rm -rf %s %s" % (WT, WT, OUT), shell=True,
                       stdout=subprocess.DEVNULL, stderr=subprocess.DEVNULL)
    json.dump(results, open(res_path, "w"), indent=1)
    return 0


if __name__ == "__main__":
    sys.exit(main())
