"""Replay drivers: realise a failed obligation on the real code.

Each entry maps (function suffix, obligation-name regex) to an injected Go
test. A FAILING test whose output contains CONFIRMED means the misbehaviour
was observed on the real code."""
import os
import re

ROOT = os.path.dirname(os.path.dirname(os.path.abspath(__file__)))
import overlay  # noqa: E402

CASHU_FILES = ["replay/cashu/zz_verif_drivers_test.go"]
MINT_FILES = ["replay/mint/zz_verif_helpers_test.go", "replay/mint/zz_verif_drivers_test.go"]

# (fn regex, obligation regex, pkg, files, test name, args)
CLIENT_FILES = ["replay/client/zz_verif_drivers_test.go"]

WALLET_FILES = ["replay/wallet/zz_verif_drivers_test.go"]
LIGHTNING_FILES = ["replay/lightning/zz_verif_drivers_test.go"]

DRIVERS = [
    (r"mint\.Mint\)\.(GetMeltQuoteState|settleProofs)$", r"rg:guarantee:.*@lockedorspent", "mint", MINT_FILES, "TestVerifReplay_SwapDuringMelt", None),
    (r"mint\.Mint\)\.checkInvoicePaid$", r"rg:(pre|guarantee):storage\.MintDB\.UpdateMintQuoteState", "mint", MINT_FILES, "TestVerifReplay_WatcherWritesAfterIssue", None),
    (r"mint\.Mint\)\.(Swap|MeltTokens)$", r"rg:guarantee:.*@lockedorspent", "mint", MINT_FILES, "TestVerifReplay_SwapDuringMelt", None),
    (r"mint\.Mint\)\.MintTokens$", r"rg:(pre|guarantee):storage\.MintDB\.UpdateMintQuoteState", "mint", MINT_FILES, "TestVerifReplay_ConcurrentMint", None),
    (r"mint\.Mint\)\.GetMintQuoteState$", r"rg:(pre|guarantee):storage\.MintDB\.UpdateMintQuoteState", "mint", MINT_FILES, "TestVerifReplay_PollOverwritesIssued", None),
    (r"wallet\.Wallet\)\.swapToSend$", r"callsite:slices\.Sort@sendfee", "wallet", WALLET_FILES, "TestVerifReplay_SendFeeEstimate", {"Amount": 3, "FeePpk": 1000}),
    (r"wallet\.Wallet\)\.getActiveKeyset$", r"post@past|inv-", "wallet", WALLET_FILES, "TestVerifReplay_FeeChangeRewindsCounter", None),
    (r"wallet\.Restore$", r"callsite:storage\.WalletDB\.IncrementKeysetCounter|shape:", "wallet", WALLET_FILES, "TestVerifReplay_RestoreCounter", None),
    (r"lightning\.CLNClient\)\.CreateInvoice$", r"callsite:|post@|shape:", "mint/lightning", LIGHTNING_FILES, "TestVerifReplay_CLNInvoiceAmountWrap", None),
    (r"nut20\.(VerifyMintQuoteSignature|SignMintQuote)$", r"post@|inv-|callsite:|shape:", "mint", MINT_FILES, "TestVerifReplay_Nut20LockedQuote", None),
    (r"mint\.Mint\)\.MintTokens$", r"post@nut20|callsite:nut20", "mint", MINT_FILES, "TestVerifReplay_Nut20LockedQuote", None),
    (r"mint\.Mint\)\.RequestMintQuote$", r"post@lockstored|post@nolock", "mint", MINT_FILES, "TestVerifReplay_Nut20LockedQuote", None),
    (r"mint\.LoadMint$", r"callsite:|post@|inv-|shape:", "mint", MINT_FILES, "TestVerifReplay_RestartKeysets", None),
    (r"mint\.Mint\)\.(Swap|MintTokens|MeltTokens|settleProofs|IssuedEcash|RedeemedEcash)$", r"post@totals|post@totalskept|post@noissue|post@notredeemed|post@store", "mint", MINT_FILES, "TestVerifReplay_TotalsFollowOperations", None),
    (r"wallet\.Wallet\)\.swapToTrusted$", r"callsite:wallet\.Wallet\.swapProofs@sigallpath|pre:wallet\.Wallet\.swapProofs", "wallet", WALLET_FILES, "TestVerifReplay_SwapToTrustedReusesCounters", None),
    (r"wallet\.Wallet\)\.(Receive|ReceiveHTLC|ReclaimUnspentProofs)$", r"post@past|callsite:storage\.WalletDB\.IncrementKeysetCounter@count", "wallet", WALLET_FILES, "TestVerifReplay_ReceiveAdvancesCounter", None),
    (r"wallet\.Wallet\)\.AddMint$", r"callsite:storage\.WalletDB\.SaveKeyset@keepscounter|post@samecounters|inv-", "wallet", WALLET_FILES, "TestVerifReplay_AddMintKeepsCounter", None),
    (r"wallet\.Wallet\)\.(CheckMeltQuoteState|Melt)$", r"@changekeyset|@changecount|@changesrc", "wallet", WALLET_FILES, "TestVerifReplay_PendingMeltChangeCounter", None),
    (r"wallet/client\.PostSwap$", r"callsite:json\.Marshal@nodleq", "wallet/client", CLIENT_FILES, "TestVerifReplay_SwapRequestCarriesDLEQ", None),
    (r"wallet/client\.PostMeltBolt11$", r"callsite:json\.Marshal@nodleq", "wallet/client", CLIENT_FILES, "TestVerifReplay_MeltRequestCarriesDLEQ", None),
    (r"mint\.Mint\)\.Swap$", r"boundary@", "mint", MINT_FILES, "TestVerifReplay_SwapCrashPoint", None),
    (r"mint\.Mint\)\.MintTokens$", r"boundary@", "mint", MINT_FILES, "TestVerifReplay_MintCrashPoint", None),
    (r"mint\.Mint\)\.MeltTokens$", r"boundary@", "mint", MINT_FILES, "TestVerifReplay_MeltCrashPoint", None),
    (r"mint\.Mint\)\.RotateKeyset$", r"boundary@", "mint", MINT_FILES, "TestVerifReplay_RotateCrashPoint", None),
    (r"cashu\.DecodeToken(V3|V4)?$", r"safety:slice", "cashu", CASHU_FILES, "TestVerifReplay_DecodeShortStrings", None),
    (r"cashu\.Token(V3|V4)\)\.(Mint|Proofs|Amount|Serialize)$", r"safety:index", "cashu", CASHU_FILES, "TestVerifReplay_AccessorsOnDecodedTokens", None),
    (r"mint\.Mint\)\.Swap$", r"pre:storage\.MintDB\.GetBlindSignatures@nonempty", "mint", MINT_FILES, "TestVerifReplay_EmptyOutputsSwap", None),
    (r"mint\.Mint\)\.MintTokens$", r"pre:storage\.MintDB\.GetBlindSignatures@nonempty", "mint", MINT_FILES, "TestVerifReplay_EmptyOutputsMint", None),
    (r"mint\.Mint\)\.ProofsStateCheck$", r"pre:storage\.MintDB\.Get(Pending|Used)Proofs.*@nonempty|pre:storage\.MintDB\.GetProofsUsed@nonempty", "mint", MINT_FILES, "TestVerifReplay_EmptyYsStateCheck", None),
    (r"sqlite\.SQLiteDB\)\.(GetProofsUsed|GetPendingProofs)$", r"pre:strings\.Repeat@count", "mint", MINT_FILES, "TestVerifReplay_EmptyYsStateCheck", None),
    (r"sqlite\.SQLiteDB\)\.GetBlindSignatures$", r"pre:strings\.Repeat@count", "mint", MINT_FILES, "TestVerifReplay_EmptyOutputsSwap", None),
    (r"mint\.Mint\)\.Swap$", r"post@atomic", "mint", MINT_FILES, "TestVerifReplay_DupBSwap", None),
    (r"mint\.Mint\)\.MintTokens$", r"post@revert|pre:storage\.MintDB\.UpdateMintQuoteState@legal", "mint", MINT_FILES, "TestVerifReplay_DupBMint|TestVerifReplay_MintStorageFault", None),
    (r"mint\.Mint\)\.MintTokens$", r"boundary|post@faultrevert", "mint", MINT_FILES, "TestVerifReplay_MintStorageFault", None),
    (r"mint\.Mint\)\.MintTokens$", r"post@cashuerr", "mint", MINT_FILES, "TestVerifReplay_HTTPMintRawStorageError", None),
    (r"mint\.Mint\)\.MeltTokens$", r"callsite:lightning\.Client\.SendPayment", "mint", MINT_FILES, "TestVerifReplay_MeltFeeLimit", None),
    (r"mint\.Mint\)\.MeltTokens$", r"callsite:mint\.Mint\.settleQuotesInternally@covers", "mint", MINT_FILES, "TestVerifReplay_InternalSettleOtherInvoice", None),
    (r"mint\.Mint\)\.checkInvoicePaid$", r"callsite:storage\.MintDB\.UpdateMintQuoteState@unpaid2paid|pre:storage\.MintDB\.UpdateMintQuoteState@legal", "mint", MINT_FILES, "TestVerifReplay_LateSettledNotification", None),
    (r"nut11\.ProofsSigAll$", r"post@anyposition|inv-", "mint", MINT_FILES, "TestVerifReplay_SigAllAfterPlainInput", None),
    (r"nut11\.HasValidSignatures$", r"inv-pres|post@bounded", "mint", MINT_FILES, "TestVerifReplay_SameKeyCountedTwice", None),
    (r"nut14\.AddWitnessHTLCToOutputs$", r"callsite:schnorr\.Sign@message", "mint", MINT_FILES, "TestVerifReplay_HTLCHelperOutputWitness", None),
    (r"mint\.Mint\)\.RequestMintQuote$", r"post@maxbalance", "mint", MINT_FILES, "TestVerifReplay_MintQuoteBalanceWrap", None),
]


def try_replay(pid, o, rec):
    for fnre, obre, pkg, files, test, args in DRIVERS:
        if re.search(fnre, o["fn"]) and re.search(obre, o["name"]):
            fs = [os.path.join(ROOT, f) for f in files]
            rc, out = overlay.run_go_test(pkg, fs, "^(" + test + ")$", args=args, timeout=120)
            confirmed = rc != 0 and "CONFIRMED" in out
            lines = [l for l in out.splitlines() if "CONFIRMED" in l or l.startswith("--- ") or l.startswith("ok") or l.startswith("FAIL")]
            return {"driver": test, "pkg": pkg, "confirmed": confirmed, "returncode": rc, "output": "\n".join(lines)[-3000:],
                    "cmd": "cd %s && python3 -c \"import sys; sys.path.insert(0,'lib'); import overlay; rc,out=overlay.run_go_test('%s', %r, '^(%s)$'); print(out); sys.exit(rc)\"" % (ROOT, pkg, fs, test)}
    return None
