"""Replay drivers: realise a solver model on the real code."""


def try_replay(pid, o, rec):
    return None
