package nut11

// Bounded stand-in for the matching semantics of HasValidSignatures
// (injected with `go test -overlay`; labelled bounded, never counted as proved).
// Exhaustive within the bound: 1..3 authorised keys (with and without a
// repeated key), every signature list of length 0..L over the alphabet
// {signature by key k, a second distinct signature by key k, signature by a
// foreign key, garbage}, n_sigs 0..4; real Schnorr signatures. Oracle: the
// size of a maximum matching between signatures and key slots (a signature
// verifies under exactly one key value) must be >= n_sigs.

import (
	"crypto/sha256"
	"encoding/hex"
	"encoding/json"
	"fmt"
	"os"
	"testing"

	"github.com/btcsuite/btcd/btcec/v2"
	"github.com/btcsuite/btcd/btcec/v2/schnorr"
)

func TestVerifBoundedHVS(t *testing.T) {
	L := 3
	if os.Getenv("VERIF_TIER") == "thorough" {
		L = 4
	}
	h := sha256.Sum256([]byte("verif bounded hvs"))
	var keys []*btcec.PrivateKey
	for i := 0; i < 4; i++ { // keys[3] is the foreign key
		k, _ := btcec.NewPrivateKey()
		keys = append(keys, k)
	}
	sign := func(k *btcec.PrivateKey, aux byte) string {
		var a [32]byte
		a[0] = aux
		s, err := schnorr.Sign(k, h[:], schnorr.CustomNonce(a))
		if err != nil {
			t.Fatal(err)
		}
		return hex.EncodeToString(s.Serialize())
	}
	// alphabet: index -> (signature string, key index it is valid for or -1)
	type sym struct {
		sig string
		key int
	}
	var alpha []sym
	for k := 0; k < 3; k++ {
		alpha = append(alpha, sym{sign(keys[k], 1), k}, sym{sign(keys[k], 2), k})
	}
	alpha = append(alpha, sym{sign(keys[3], 1), -1}, sym{"zz-not-hex", -1})
	keyLists := [][]int{{0}, {0, 1}, {0, 1, 2}, {0, 0}, {1, 0, 1}}
	cases := 0
	type failure struct {
		Witness string `json:"witness"`
		Msg     string `json:"msg"`
	}
	var fails []failure
	var rec func(prefix []int)
	check := func(seq []int) {
		for _, kl := range keyLists {
			var pubs []*btcec.PublicKey
			for _, ki := range kl {
				pubs = append(pubs, keys[ki].PubKey())
			}
			var sigs []string
			validFor := map[int]int{}
			for _, a := range seq {
				sigs = append(sigs, alpha[a].sig)
				if alpha[a].key >= 0 {
					validFor[alpha[a].key]++
				}
			}
			slots := map[int]int{}
			for _, ki := range kl {
				slots[ki]++
			}
			matching := 0
			for ki, n := range slots {
				v := validFor[ki]
				if v < n {
					matching += v
				} else {
					matching += n
				}
			}
			for n := 0; n <= 4; n++ {
				cases++
				got := HasValidSignatures(h[:], sigs, n, pubs)
				want := matching >= n
				if got != want && len(fails) < 5 {
					fails = append(fails, failure{Witness: fmt.Sprintf("keys=%v sigs=%v n_sigs=%d", kl, seq, n),
						Msg: fmt.Sprintf("HasValidSignatures=%v, maximum matching %d", got, matching)})
				}
			}
		}
	}
	rec = func(prefix []int) {
		check(prefix)
		if len(prefix) == L {
			return
		}
		for a := range alpha {
			rec(append(append([]int{}, prefix...), a))
		}
	}
	rec(nil)
	out, _ := json.Marshal(map[string]any{"cases": cases, "failures": fails})
	fmt.Printf("VERIF-BOUNDED %s\n", out)
	if len(fails) > 0 {
		t.Fatalf("%d mismatches", len(fails))
	}
}
