package crypto

// Bounded stand-in for the sorted concatenation inside DeriveKeysetId (C11):
// compared with an independent reading of NUT-02 (sort by amount, concatenate
// compressed keys, sha256, "00" + first 14 hex chars) on all key sets of size
// 0..5 drawn from 6 fixed keys with amounts incl. 2^63 and 2^64-1, each
// inserted into the map in several orders.

import (
	"crypto/sha256"
	"encoding/hex"
	"encoding/json"
	"fmt"
	"sort"
	"testing"

	"github.com/decred/dcrd/dcrec/secp256k1/v4"
)

func TestVerifBoundedKeysetId(t *testing.T) {
	amounts := []uint64{1, 2, 8, 1 << 31, 1 << 63, ^uint64(0)}
	var keys []*secp256k1.PublicKey
	for i := range amounts {
		var b [32]byte
		b[31] = byte(i + 1)
		keys = append(keys, secp256k1.PrivKeyFromBytes(b[:]).PubKey())
	}
	type failure struct {
		Witness string `json:"witness"`
		Msg     string `json:"msg"`
	}
	var fails []failure
	cases := 0
	spec := func(idx []int) string {
		s := append([]int{}, idx...)
		sort.Slice(s, func(a, b int) bool { return amounts[s[a]] < amounts[s[b]] })
		var cat []byte
		for _, i := range s {
			cat = append(cat, keys[i].SerializeCompressed()...)
		}
		h := sha256.Sum256(cat)
		return "00" + hex.EncodeToString(h[:])[:14]
	}
	for mask := 0; mask < 1<<len(amounts); mask++ {
		var idx []int
		for i := range amounts {
			if mask&(1<<i) != 0 {
				idx = append(idx, i)
			}
		}
		if len(idx) > 5 {
			continue
		}
		want := spec(idx)
		// several insertion orders: ascending, descending, rotated
		orders := [][]int{append([]int{}, idx...)}
		rev := append([]int{}, idx...)
		for a, b := 0, len(rev)-1; a < b; a, b = a+1, b-1 {
			rev[a], rev[b] = rev[b], rev[a]
		}
		orders = append(orders, rev)
		if len(idx) > 1 {
			orders = append(orders, append(append([]int{}, idx[1:]...), idx[0]))
		}
		for _, ord := range orders {
			for rep := 0; rep < 3; rep++ { // map iteration order is randomised per run
				m := make(PublicKeys)
				for _, i := range ord {
					m[amounts[i]] = keys[i]
				}
				cases++
				if got := DeriveKeysetId(m); got != want {
					if len(fails) < 5 {
						fails = append(fails, failure{fmt.Sprintf("keys=%v order=%v", idx, ord), fmt.Sprintf("got %s want %s", got, want)})
					}
				}
			}
		}
	}
	out, _ := json.Marshal(map[string]any{"cases": cases, "failures": fails})
	fmt.Printf("VERIF-BOUNDED %s\n", out)
	if len(fails) > 0 {
		t.Fatalf("%d mismatches", len(fails))
	}
}
