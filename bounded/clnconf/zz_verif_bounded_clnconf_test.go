package lightning

// Bounded stand-in (C05): the part of the CLN adapter's outcome mapping that the
// contracts do not decide - WHICH error value it returns. The mint releases the
// inputs of a failed pay call when the status lookup answers "no such payment"
// (errors.Is(err, OutgoingPaymentNotFound)); error values are opaque interface
// values in the proof model, so this identity is exercised instead: the real
// adapter against an in-process REST node over all combinations of HTTP status
// and answer body below.

import (
	"context"
	"encoding/json"
	"errors"
	"fmt"
	"net/http"
	"net/http/httptest"
	"testing"
)

func TestVerifBoundedCLNOutcomes(t *testing.T) {
	type failure struct {
		Witness string `json:"witness"`
		Msg     string `json:"msg"`
	}
	var fails []failure
	cases := 0
	codes := []int{200, 201, 204, 400, 401, 404, 409, 500, 502, 503}
	bodies := []struct{ name, body string }{
		{"empty-list", `{"pays":[]}`},
		{"complete", `{"pays":[{"payment_hash":"ab","status":"complete","preimage":"cd"}]}`},
		{"failed", `{"pays":[{"payment_hash":"ab","status":"failed"}]}`},
		{"pending", `{"pays":[{"payment_hash":"ab","status":"pending"}]}`},
		{"other-status", `{"pays":[{"payment_hash":"ab","status":"COMPLETE"}]}`},
		{"error-object", `{"code":-1,"message":"boom"}`},
		{"garbage", `<html>bad gateway</html>`},
		{"empty", ``},
	}
	for _, code := range codes {
		for _, b := range bodies {
			cases++
			srv := httptest.NewServer(http.HandlerFunc(func(rw http.ResponseWriter, req *http.Request) {
				rw.WriteHeader(code)
				fmt.Fprint(rw, b.body)
			}))
			cln, _ := SetupCLNClient(CLNConfig{RestURL: srv.URL})
			st, err := cln.OutgoingPaymentStatus(context.Background(), "ab")
			srv.Close()
			ok2xx := code == 200 || code == 201
			w := fmt.Sprintf("HTTP %d body %s", code, b.name)
			notFound := errors.Is(err, OutgoingPaymentNotFound)
			// a 2xx JSON object that lists no payments (an empty list, or no "pays" member at all) is the node saying so
			if notFound != (ok2xx && (b.name == "empty-list" || b.name == "error-object")) {
				fails = append(fails, failure{w, fmt.Sprintf("reports 'no such payment' = %v (status %v, err %v): only a successful lookup with an empty list says that", notFound, st.PaymentStatus, err)})
			}
			if err == nil && st.PaymentStatus == Succeeded && !(ok2xx && b.name == "complete") {
				fails = append(fails, failure{w, "reports Succeeded without error"})
			}
			if err == nil && st.PaymentStatus == Failed && !(ok2xx && b.name == "failed") {
				fails = append(fails, failure{w, "reports a definitive Failed without error"})
			}
			if ok2xx && b.name == "complete" && !(err == nil && st.PaymentStatus == Succeeded && st.Preimage == "cd") {
				fails = append(fails, failure{w, fmt.Sprintf("a completed payment is reported as %v / %v", st.PaymentStatus, err)})
			}
		}
	}
	if len(fails) > 6 {
		fails = fails[:6]
	}
	out, _ := json.Marshal(map[string]any{"cases": cases, "failures": fails})
	fmt.Printf("VERIF-BOUNDED %s\n", out)
	if len(fails) > 0 {
		t.Fatalf("%d mismatches", len(fails))
	}
}
