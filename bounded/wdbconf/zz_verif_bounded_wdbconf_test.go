package storage

// Bounded conformance of the real bbolt wallet store against the ASSUMED
// storage.WalletDB contracts of wallet/storage/zz_contracts_verif.go (ghost
// wdb.counter, C19): IncrementKeysetCounter adds exactly num to the stored
// counter of a known keyset and changes nothing on error, GetKeysetCounter /
// GetKeyset read the stored counter (0 / nil for an unknown id), SaveKeyset
// writes the whole record, every other method leaves all counters alone, and
// the counters survive Close + InitBolt on the same directory.
// Pseudo-random operation sequences (seeded) against a reference map; after
// every operation ALL counters are read back through both getters.

import (
	"encoding/json"
	"fmt"
	"os"
	"strconv"
	"testing"

	"github.com/decred/dcrd/dcrec/secp256k1/v4"
	"github.com/elnosh/gonuts/cashu"
	"github.com/elnosh/gonuts/crypto"
)

type wdbRng struct{ s uint64 }

func (r *wdbRng) next() uint64 {
	r.s = r.s*6364136223846793005 + 1442695040888963407
	x := r.s
	x ^= x >> 33
	x *= 0xff51afd7ed558ccd
	x ^= x >> 33
	return x
}
func (r *wdbRng) n(k int) int { return int(r.next() % uint64(k)) }

type wdbFailure struct {
	Witness string `json:"witness"`
	Msg     string `json:"msg"`
}

func TestVerifBoundedWalletDBConformance(t *testing.T) {
	seqs, ops := 30, 40
	if os.Getenv("VERIF_TIER") == "thorough" {
		seqs, ops = 300, 80
	}
	seed, _ := strconv.ParseUint(os.Getenv("VERIF_SEED"), 10, 64)
	if seed == 0 {
		seed = 1
	}
	ids := []string{"009a1f293253e41e", "00ffd48b8f5ecf80", "00aaaaaaaaaaaaaa", "00bbbbbbbbbbbbbb"} // the last one is never saved by SaveKeyset(init)
	urls := []string{"http://a.example", "http://b.example"}
	var pk [32]byte
	pk[31] = 7
	pub := secp256k1.PrivKeyFromBytes(pk[:]).PubKey()
	nums := []uint32{0, 1, 2, 5, 100, 1 << 20}
	var fails []wdbFailure
	cases := 0
	fail := func(w, m string) {
		if len(fails) < 8 {
			fails = append(fails, wdbFailure{w, m})
		}
	}
	for s := 0; s < seqs; s++ {
		rng := &wdbRng{s: seed*1000003 + uint64(s)}
		dir := t.TempDir()
		db, err := InitBolt(dir)
		if err != nil {
			t.Fatal(err)
		}
		model := map[string]uint32{}   // id -> counter (only known ids)
		where := map[string]string{}   // id -> mint url bucket (the last one saved to)
		alias := map[string]bool{}     // id stored under more than one mint URL
		trace := ""
		readback := func() {
			for _, id := range ids {
				want, known := model[id]
				got := db.GetKeysetCounter(id)
				if got != want {
					fail(trace, fmt.Sprintf("GetKeysetCounter(%s) = %d, contract/model %d", id, got, want))
				}
				ks := db.GetKeyset(id)
				if known {
					if ks == nil {
						fail(trace, fmt.Sprintf("GetKeyset(%s) = nil for a stored keyset", id))
					} else if ks.Counter != want || ks.Id != id {
						fail(trace, fmt.Sprintf("GetKeyset(%s) = {Id %s Counter %d}, model counter %d", id, ks.Id, ks.Counter, want))
					}
				} else if ks != nil {
					fail(trace, fmt.Sprintf("GetKeyset(%s) != nil for an unknown keyset", id))
				}
			}
		}
		for o := 0; o < ops; o++ {
			cases++
			switch k := rng.n(12); k {
			case 0, 1: // SaveKeyset: writes the whole record, counter included
				id := ids[rng.n(len(ids))]
				url := urls[rng.n(len(urls))]
				c := nums[rng.n(len(nums))]
				if u, ok := where[id]; ok && url != u {
					// the same mint known under a second URL (what AddMint does for a differently spelled
					// URL): the record is saved there with the counter the wallet has stored for the id
					if rng.n(2) == 0 {
						c = model[id]
						alias[id] = true
					} else {
						url = u
					}
				}
				if alias[id] {
					c = model[id] // once an id lives in two buckets the wallet only ever re-saves its stored counter
				}
				trace += fmt.Sprintf("SaveKeyset(%s,%s,%d);", id, url, c)
				err := db.SaveKeyset(&crypto.WalletKeyset{Id: id, MintURL: url, Unit: "sat", Active: true, PublicKeys: map[uint64]*secp256k1.PublicKey{1: pub}, Counter: c, InputFeePpk: 100})
				if err != nil {
					fail(trace, "SaveKeyset: unexpected error "+err.Error())
				} else {
					model[id] = c
					where[id] = url
				}
			case 2, 3, 4, 5: // IncrementKeysetCounter
				id := ids[rng.n(len(ids))]
				num := nums[rng.n(len(nums))]
				trace += fmt.Sprintf("Increment(%s,%d);", id, num)
				err := db.IncrementKeysetCounter(id, num)
				if _, known := model[id]; known {
					if err != nil {
						fail(trace, "IncrementKeysetCounter on a stored keyset: "+err.Error())
					} else {
						model[id] += num
					}
				} else if err == nil {
					fail(trace, "IncrementKeysetCounter on an unknown keyset returned nil")
				}
			case 6: // proofs traffic: must not touch counters
				sec := fmt.Sprintf("secret-%d", rng.n(5))
				p := cashu.Proof{Amount: 2, Id: ids[rng.n(len(ids))], Secret: sec, C: "02" + fmt.Sprintf("%064x", rng.n(1000))}
				trace += "SaveProofs;"
				db.SaveProofs(cashu.Proofs{p})
				if rng.n(2) == 0 {
					trace += "DeleteProof;"
					db.DeleteProof(sec)
				}
			case 7:
				sec := fmt.Sprintf("secret-%d", rng.n(5))
				p := cashu.Proof{Amount: 4, Id: ids[rng.n(len(ids))], Secret: sec, C: "02" + fmt.Sprintf("%064x", rng.n(1000))}
				trace += "AddPendingProofs;"
				db.AddPendingProofs(cashu.Proofs{p})
				db.AddPendingProofsByQuoteId(cashu.Proofs{p}, "q1")
				if rng.n(2) == 0 {
					trace += "DeletePendingByQuote;"
					db.DeletePendingProofsByQuoteId("q1")
				}
			case 8:
				trace += "SaveQuotes;"
				db.SaveMintQuote(MintQuote{QuoteId: fmt.Sprintf("mq%d", rng.n(3)), Mint: urls[0], Amount: 5})
				lq := fmt.Sprintf("lq%d", rng.n(3))
				ck := []string{"", ids[0], ids[1]}[rng.n(3)]
				if err := db.SaveMeltQuote(MeltQuote{QuoteId: lq, Mint: urls[0], Amount: 5, ChangeKeysetId: ck}); err != nil {
					fail(trace, "SaveMeltQuote: "+err.Error())
				} else if got := db.GetMeltQuoteById(lq); got == nil || got.QuoteId != lq || got.ChangeKeysetId != ck {
					fail(trace, fmt.Sprintf("GetMeltQuoteById(%s) = %+v after SaveMeltQuote with ChangeKeysetId %q", lq, got, ck))
				}
			case 9: // UpdateKeysetMintURL: keysets move to another bucket with their counters
				from := urls[rng.n(len(urls))]
				to := "http://moved-" + strconv.Itoa(s) + "-" + strconv.Itoa(o) + ".example"
				trace += fmt.Sprintf("UpdateKeysetMintURL(%s);", from)
				err := db.UpdateKeysetMintURL(from, to)
				if err == nil {
					for id, u := range where {
						if u == from {
							where[id] = to
						}
					}
					urls = append([]string{}, urls...)
					for i := range urls {
						if urls[i] == from {
							urls[i] = to
						}
					}
				}
			case 10: // restart on the same directory
				trace += "Reopen;"
				if err := db.Close(); err != nil {
					fail(trace, "Close: "+err.Error())
				}
				db, err = InitBolt(dir)
				if err != nil {
					t.Fatal(err)
				}
			case 11:
				trace += "GetKeysets;"
				km := db.GetKeysets()
				seen := map[string]uint32{}
				for _, l := range km {
					for _, ks := range l {
						seen[ks.Id] = ks.Counter
					}
				}
				if len(seen) != len(model) {
					fail(trace, fmt.Sprintf("GetKeysets lists %d distinct keyset ids, model %d", len(seen), len(model)))
				}
				for id, c := range model {
					if seen[id] != c {
						fail(trace, fmt.Sprintf("GetKeysets: counter of %s = %d, model %d", id, seen[id], c))
					}
				}
			}
			readback()
			if len(fails) > 0 {
				break
			}
		}
		db.Close()
		urls = []string{"http://a.example", "http://b.example"}
		if len(fails) > 0 {
			break
		}
	}
	out, _ := json.Marshal(map[string]any{"cases": cases, "failures": fails})
	fmt.Printf("VERIF-BOUNDED %s\n", out)
	if len(fails) > 0 {
		t.Fatalf("%d contract violations", len(fails))
	}
}
