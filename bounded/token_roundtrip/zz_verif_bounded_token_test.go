package cashu

// Bounded stand-in for the token round trip (C14): build -> serialise ->
// decode gives back mint, unit and the same proofs (V3: same sequence; V4:
// same multiset, the grouping map loses inter-keyset order), DLEQ exactly as
// requested, Amount = sum of the proofs mod 2^64. Real JSON/CBOR/base64
// codecs. Exhaustive within the bound stated in meta.json.

import (
	"encoding/json"
	"fmt"
	"os"
	"reflect"
	"sort"
	"testing"
)

type vFail struct {
	Witness string `json:"witness"`
	Msg     string `json:"msg"`
}

func vKey(p Proof) string {
	d := "nil"
	if p.DLEQ != nil {
		d = p.DLEQ.E + "/" + p.DLEQ.S + "/" + p.DLEQ.R
	}
	return fmt.Sprintf("%d|%s|%s|%s|%s|%s", p.Amount, p.Id, p.Secret, p.C, p.Witness, d)
}

func vSortedKeys(ps Proofs) []string {
	var ks []string
	for _, p := range ps {
		ks = append(ks, vKey(p))
	}
	sort.Strings(ks)
	return ks
}

func TestVerifBoundedTokenRoundTrip(t *testing.T) {
	thorough := os.Getenv("VERIF_TIER") == "thorough"
	ids := []string{"009a1f293253e41e", "00ffd48b8f5ecf80"}
	amounts := []uint64{1, 1 << 63}
	if thorough {
		amounts = []uint64{0, 1, 1 << 63, ^uint64(0)}
	}
	Cs := []string{"02a9acc1e48c25eeeb9289b5031cc57da9fe72f3fe2861d264bdc074209b107ba2"}
	type variant struct {
		id, wit string
		amt     uint64
		dleq    int // 0 none, 1 full, 2 without r
	}
	var alpha []variant
	for _, id := range ids {
		for _, a := range amounts {
			for _, w := range []string{"", `{"signatures":["ab"]}`} {
				for d := 0; d < 3; d++ {
					alpha = append(alpha, variant{id, w, a, d})
				}
			}
		}
	}
	small := []variant{alpha[0], alpha[1], alpha[2], alpha[len(alpha)-1], alpha[len(alpha)/2], alpha[len(alpha)/2+1]}
	n := 0
	mk := func(vs []variant) Proofs {
		ps := Proofs{}
		for i, v := range vs {
			p := Proof{Amount: v.amt, Id: v.id, Secret: fmt.Sprintf(`["P2PK",{"nonce":"%d","data":"é\"q"}]`, i), C: Cs[0], Witness: v.wit}
			switch v.dleq {
			case 1:
				p.DLEQ = &DLEQProof{E: "0a", S: "0b", R: "0c"}
			case 2:
				p.DLEQ = &DLEQProof{E: "0a", S: "0b"}
			}
			ps = append(ps, p)
		}
		return ps
	}
	cases := 0
	var fails []vFail
	fail := func(w, msg string) {
		if len(fails) < 5 {
			fails = append(fails, vFail{w, msg})
		}
	}
	check := func(vs []variant) {
		for _, v4 := range []bool{false, true} {
			for _, incl := range []bool{false, true} {
				cases++
				w := fmt.Sprintf("v4=%v includeDLEQ=%v proofs=%v", v4, incl, vs)
				orig := mk(vs)
				in := mk(vs) // NewTokenV3 clears DLEQ in place
				var tok Token
				var err error
				if v4 {
					var t4 TokenV4
					t4, err = NewTokenV4(in, "https://mint.example", Sat, incl)
					tok = t4
				} else {
					var t3 TokenV3
					t3, err = NewTokenV3(in, "https://mint.example", Sat, incl)
					tok = t3
				}
				partial := false
				for _, v := range vs {
					if v.dleq == 2 {
						partial = true
					}
				}
				if err != nil {
					if !(v4 && incl && partial) {
						fail(w, "unexpected error: "+err.Error())
					}
					continue
				}
				if v4 && incl && partial {
					fail(w, "token with incomplete DLEQ built without error")
					continue
				}
				s, err := tok.Serialize()
				if err != nil {
					fail(w, "serialize: "+err.Error())
					continue
				}
				dec, err := DecodeToken(s)
				if err != nil {
					fail(w, "decode: "+err.Error())
					continue
				}
				if len(vs) > 0 && dec.Mint() != "https://mint.example" {
					fail(w, "mint url "+dec.Mint())
				}
				want := Proofs{}
				var sum uint64
				for _, p := range orig {
					q := p
					if !incl {
						q.DLEQ = nil
					}
					want = append(want, q)
					sum += p.Amount
				}
				got := dec.Proofs()
				if v4 {
					if !reflect.DeepEqual(vSortedKeys(got), vSortedKeys(want)) {
						fail(w, fmt.Sprintf("proofs differ: got %v want %v", vSortedKeys(got), vSortedKeys(want)))
					}
				} else {
					var gk, wk []string
					for _, p := range got {
						gk = append(gk, vKey(p))
					}
					for _, p := range want {
						wk = append(wk, vKey(p))
					}
					if !reflect.DeepEqual(gk, wk) {
						fail(w, fmt.Sprintf("proofs differ: got %v want %v", gk, wk))
					}
				}
				if dec.Amount() != sum {
					fail(w, fmt.Sprintf("amount %d, sum of proofs %d", dec.Amount(), sum))
				}
			}
		}
	}
	maxLen := 2
	var rec func(prefix []variant, alphabet []variant, max int)
	rec = func(prefix []variant, alphabet []variant, max int) {
		check(prefix)
		n++
		if len(prefix) == max {
			return
		}
		for _, a := range alphabet {
			rec(append(append([]variant{}, prefix...), a), alphabet, max)
		}
	}
	rec(nil, alpha, maxLen)
	if thorough {
		rec(nil, small, 4)
	} else {
		rec(nil, small, 3)
	}
	out, _ := json.Marshal(map[string]any{"cases": cases, "failures": fails})
	fmt.Printf("VERIF-BOUNDED %s\n", out)
	if len(fails) > 0 {
		t.Fatalf("%d mismatches", len(fails))
	}
}
