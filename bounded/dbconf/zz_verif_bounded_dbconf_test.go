package sqlite

// Bounded conformance check of the real SQLite store (SQLiteDB, sqlite.go)
// against the abstract `trusted` contracts of storage.MintDB that the govc
// verifier assumes (mint/storage/zz_contracts_verif.go).
//
// A plain-Go reference model of the ghost tables (db.spent/db.spentrow,
// db.pending/db.pendrow, db.mq/db.mqrow, db.melt/db.meltrow, db.sig/db.sigrow,
// db.ks/db.ksrow, db.seedset/db.seed, db.issuedtotal, db.redeemedtotal) is
// driven next to a fresh real store through pseudo-random operation sequences
// over every method the contracts file covers, with arguments drawn from small
// pools so that collisions are frequent. After every call
//   - the call's result / error is checked against the `ensures` clauses,
//     evaluated on the model's pre-state (db.faults never changes here, so
//     `err == nil <==> (no fault && C)` is checked as `err == nil <==> C`);
//   - the post-state demanded by the clauses (selected by the ACTUAL err, as the
//     clauses are written) is compared with the store by reading every table
//     back through the getters over the whole pools (this also checks the frame:
//     tables outside the `modifies` list must not move);
//   - the model is advanced.
// The `requires` clauses are respected by the generator (mintinv, meltinv,
// legalMint, legalMelt, len(B_s) >= len(sigs), DLEQ != nil, UpdateMeltQuote's
// state != Paid ==> preimage == "", SaveKeyset's InputFeePpk < 2^63); nothing
// else is.
// Storage faults: no fault is injected, so an unexpected error is a failure --
// except in the two triaged situations where the real store deterministically
// returns an error that the contracts count as a fault (db.faults may grow):
//   (a) GetIssuedEcash / GetRedeemedEcash when a per-keyset total of the model is
//       >= 2^63 (SQLite SUM: "integer overflow");
//   (b) SaveProofs / AddPendingProofs / SaveBlindSignatures / SaveMintQuote /
//       SaveMeltQuote when a uint64 argument field is >= 2^63 (database/sql:
//       "uint64 values with high bit set are not supported").
// In both, err != nil is accepted and the err != nil clauses are still enforced
// (result nil / nothing stored); err == nil must satisfy the success clauses.
// decode.msat / decode.hash / ln.fee are uninterpreted in the contracts; the
// harness fixes one interpretation (tables vbMintReqs / vbMeltReqs, vbLnFee).
//
// Output: one line `VERIF-BOUNDED {"cases":N,"failures":[{witness,msg}...]}`.
// Env: VERIF_SEED (default 1), VERIF_TIER (quick|thorough),
// VERIF_DBCONF_SEQ=<n> replays only sequence n.

import (
	"database/sql"
	"encoding/hex"
	"encoding/json"
	"errors"
	"fmt"
	"math/big"
	"math/rand/v2"
	"os"
	"sort"
	"strconv"
	"strings"
	"testing"

	"github.com/decred/dcrd/dcrec/secp256k1/v4"
	"github.com/elnosh/gonuts/cashu"
	"github.com/elnosh/gonuts/cashu/nuts/nut04"
	"github.com/elnosh/gonuts/cashu/nuts/nut05"
	"github.com/elnosh/gonuts/crypto"
	"github.com/elnosh/gonuts/mint/storage"
)

// ---- generator switches ------------------------------------------------------
// Values >= 2^63 for persisted uint64 fields. No `requires` clause excludes them
// (only SaveMintQuote's ensures mentions mq.Amount < 2^63); database/sql refuses a
// uint64 with the high bit set, so the Save*/AddPendingProofs call returns an
// error although the clause's logical condition holds. Triage: that error IS a
// storage fault in the sense of the contracts (db.faults may grow on any call),
// so the harness keeps generating such values and ACCEPTS an error of a
// Save*/AddPendingProofs call iff some uint64 argument field is >= 2^63 -- the
// err != nil clauses (nothing stored) are still checked by the read-back, and a
// success must satisfy the ordinary success clauses. Without such a field an
// unexpected error is a failure. Each switch can be overridden by the
// environment: VERIF_DBCONF_<NAME>=0|1; VERIF_DBCONF_HUGE=0|1 sets all HUGE_*.
var (
	vbHugeProofAmount    = vbSwitch("HUGE_PROOF_AMOUNT", true)     // cashu.Proof.Amount (SaveProofs, AddPendingProofs)
	vbHugeSigAmount      = vbSwitch("HUGE_SIG_AMOUNT", true)       // cashu.BlindedSignature.Amount
	vbHugeMintExpiry     = vbSwitch("HUGE_MINT_EXPIRY", true)      // storage.MintQuote.Expiry
	vbHugeMeltExpiry     = vbSwitch("HUGE_MELT_EXPIRY", true)      // storage.MeltQuote.Expiry
	vbHugeMeltAmountMsat = vbSwitch("HUGE_MELT_AMOUNT_MSAT", true) // storage.MeltQuote.AmountMsat
	// SaveKeyset `requires ks.InputFeePpk < 2^63`. true VIOLATES that requires (a
	// Go `uint` is wrapped to a negative int64 by database/sql and GetKeysets then
	// fails on every call); only for experiments.
	vbHugeKeysetFee = vbSwitch("HUGE_KEYSET_FEE", false)
	// UpdateMeltQuote `requires state != nut05.Paid ==> preimage == ""`. true
	// respects it; false VIOLATES it (GetMeltQuote's meltinv(r0) then fails).
	vbMeltPreimageOnlyWhenPaid = vbSwitch("PREIMAGE_ONLY_WHEN_PAID", true)
)

func vbSwitch(name string, def bool) bool {
	if strings.HasPrefix(name, "HUGE_") {
		if v := os.Getenv("VERIF_DBCONF_HUGE"); v == "0" || v == "1" {
			def = v == "1"
		}
	}
	if v := os.Getenv("VERIF_DBCONF_" + name); v == "0" || v == "1" {
		return v == "1"
	}
	return def
}

const vbHuge = uint64(1) << 63

type vbFailure struct {
	Witness string `json:"witness"`
	Msg     string `json:"msg"`
}

type vbSigRow struct {
	Amount uint64
	C_     string
	Id     string
	E      string
	S      string
}

// vbModel: the ghost tables.
type vbModel struct {
	spent    map[string]storage.DBProof // db.spent / db.spentrow, key Y
	pending  map[string]storage.DBProof // db.pending / db.pendrow, key Y
	mq       map[string]storage.MintQuote
	melt     map[string]storage.MeltQuote
	sig      map[string]vbSigRow
	ks       map[string]storage.DBKeyset
	seedset  bool
	seed     []byte
	issued   *big.Int
	redeemed *big.Int
}

func vbNewModel() *vbModel {
	return &vbModel{
		spent: map[string]storage.DBProof{}, pending: map[string]storage.DBProof{},
		mq: map[string]storage.MintQuote{}, melt: map[string]storage.MeltQuote{},
		sig: map[string]vbSigRow{}, ks: map[string]storage.DBKeyset{},
		issued: new(big.Int), redeemed: new(big.Int),
	}
}

func vbCloneMap[V any](m map[string]V) map[string]V {
	c := make(map[string]V, len(m))
	for k, v := range m {
		c[k] = v
	}
	return c
}

func (m *vbModel) clone() *vbModel {
	return &vbModel{
		spent: vbCloneMap(m.spent), pending: vbCloneMap(m.pending),
		mq: vbCloneMap(m.mq), melt: vbCloneMap(m.melt),
		sig: vbCloneMap(m.sig), ks: vbCloneMap(m.ks),
		seedset: m.seedset, seed: append([]byte(nil), m.seed...),
		issued: new(big.Int).Set(m.issued), redeemed: new(big.Int).Set(m.redeemed),
	}
}

// ---- pools ---------------------------------------------------------------------

type vbReq struct {
	req    string
	amount uint64 // mint: decode.msat(req) == amount*1000 ; melt: decode.msat(req)/1000 == amount
	hash   string // decode.hash(req)
}

var (
	vbSecrets   = []string{"", "s1", "s2", "s3", "it's \"q\" ;-- x", "s5"}
	vbKeysetIds = []string{"00aa", "00bb", "00cc"}
	vbAmounts   = []uint64{0, 1, 1 << 32, 1 << 62}
	vbCs        = []string{"c0", "c1", ""}
	vbWitnesses = []string{"", "w1"}
	vbB_s       = []string{"b0", "b1", "b2", "b3"}
	vbB_Query   = []string{"b0", "b1", "b2", "b3", "b-unknown", ""}
	vbDleqStrs  = []string{"e0", "e1", ""}
	vbMintIds   = []string{"mq0", "mq1", "mq2", "mq3"}
	vbMintQuery = []string{"mq0", "mq1", "mq2", "mq3", "mq-unknown", ""}
	vbMeltIds   = []string{"lq0", "lq1", "lq2", "lq3"}
	vbMeltQuery = []string{"lq0", "lq1", "lq2", "lq3", "lq-unknown", ""}
	vbKsQuery   = []string{"00aa", "00bb", "00cc", "00zz"}
	vbExpiries  = []uint64{0, 1700000000, 1<<63 - 1}
	vbPreimages = []string{"", "pre1", "pre2"}
	vbSeeds     = [][]byte{nil, {0x07}, []byte("0123456789abcdef0123456789abcdef")}
	vbUnits     = []string{"sat", "usd", ""}
	vbKsSeeds   = []string{"seedA", ""}
	vbPathIdx   = []uint32{0, 1, 1<<32 - 1}
	vbKsFees    = []uint{0, 100}

	// interpretation of decode.msat / decode.hash on the request pools
	vbMintReqs = []vbReq{
		{"lnbc-a", 0, "hashA"}, {"lnbc-b", 1, "hashB"}, {"lnbc-c", 1 << 32, "hashC"},
		{"lnbc-d", 1 << 62, "hashB"}, {"lnbc-e", 1 << 63, "hashE"}, {"lnbc-f", 1<<64 - 1, "hashC"},
	}
	vbMintHashQuery = []string{"hashA", "hashB", "hashC", "hashE", "hash-unknown", ""}
	vbMeltReqs      = []vbReq{
		{"lnm-a", 0, "ph0"}, {"lnm-b", 1, "ph1"}, {"lnm-c", 1 << 32, "ph1"}, {"lnm-d", 9223372036854775, "ph3"},
	}
	vbMeltReqQuery = []string{"lnm-a", "lnm-b", "lnm-c", "lnm-d", "lnm-unknown", ""}
	vbMeltAmounts  = []uint64{0, 1, 2, 1 << 32, 9223372036854775}
	vbMeltMsats    = []uint64{0, 1000, 2500, (1 << 32) * 1000}

	vbYs     []string          // Yof(vbSecrets[i])
	vbYQuery []string          // vbYs + unknown / malformed keys
	vbYName  map[string]string // short names for traces
	vbPubs   []*secp256k1.PublicKey
)

// interpretation of ln.fee
func vbLnFee(x uint64) uint64 { return x % 3 }

var vbYCache = map[string]string{}

func vbYof(secret string) string {
	if y, ok := vbYCache[secret]; ok {
		return y
	}
	Y, err := crypto.HashToCurve([]byte(secret))
	if err != nil {
		panic(err)
	}
	y := hex.EncodeToString(Y.SerializeCompressed())
	vbYCache[secret] = y
	return y
}

func vbInitPools() {
	if vbYs != nil {
		return
	}
	vbYName = map[string]string{}
	for i, s := range vbSecrets {
		y := vbYof(s)
		vbYs = append(vbYs, y)
		vbYName[y] = "Y" + strconv.Itoa(i)
	}
	unk := vbYof("never-stored")
	up := strings.ToUpper(vbYs[1])
	vbYQuery = append(append([]string{}, vbYs...), unk, up, "")
	vbYName[unk], vbYName[up], vbYName[""] = "Yunk", "YUP1", "Yempty"
	vbPubs = []*secp256k1.PublicKey{nil}
	for i := 1; i <= 2; i++ {
		var b [32]byte
		b[31] = byte(i)
		vbPubs = append(vbPubs, secp256k1.PrivKeyFromBytes(b[:]).PubKey())
	}
}

func vbMintReq(req string) (vbReq, bool) {
	for _, r := range vbMintReqs {
		if r.req == req {
			return r, true
		}
	}
	return vbReq{}, false
}

func vbMeltReq(req string) (vbReq, bool) {
	for _, r := range vbMeltReqs {
		if r.req == req {
			return r, true
		}
	}
	return vbReq{}, false
}

// ---- contract macros -----------------------------------------------------------

func vbLegalMint(from, to nut04.State) bool {
	return (from == nut04.Unpaid && to == nut04.Paid) || (from == nut04.Paid && to == nut04.Pending) ||
		(from == nut04.Pending && to == nut04.Issued) || (from == nut04.Pending && to == nut04.Paid) ||
		(from == nut04.Issued && to == nut04.Paid) || (from == nut04.Paid && to == nut04.Paid)
}

func vbLegalMelt(from, to nut05.State) bool {
	return (from == nut05.Unpaid && to == nut05.Pending) || (from == nut05.Pending && to == nut05.Paid) ||
		(from == nut05.Pending && to == nut05.Unpaid)
}

func vbMintInv(r storage.MintQuote) bool {
	if !(r.State == nut04.Unpaid || r.State == nut04.Paid || r.State == nut04.Issued || r.State == nut04.Pending) {
		return false
	}
	q, ok := vbMintReq(r.PaymentRequest)
	return ok && q.amount == r.Amount && q.hash == r.PaymentHash
}

func vbMeltInv(r storage.MeltQuote) string {
	if !(r.State == nut05.Unpaid || r.State == nut05.Pending || r.State == nut05.Paid) {
		return "State not in {Unpaid,Pending,Paid}"
	}
	if r.State != nut05.Paid && r.Preimage != "" {
		return "State != Paid but Preimage != \"\""
	}
	if r.Amount > 9223372036854775 {
		return "Amount > 9223372036854775"
	}
	if r.FeeReserve > r.Amount {
		return "FeeReserve > Amount"
	}
	if r.IsMpp && r.FeeReserve != vbLnFee(r.AmountMsat/1000) {
		return "IsMpp but FeeReserve != ln.fee(AmountMsat/1000)"
	}
	q, ok := vbMeltReq(r.InvoiceRequest)
	if !ok {
		return "InvoiceRequest outside the pool"
	}
	if !r.IsMpp && r.Amount != q.amount {
		return "!IsMpp but Amount != decode.msat(InvoiceRequest)/1000"
	}
	if q.hash != r.PaymentHash {
		return "decode.hash(InvoiceRequest) != PaymentHash"
	}
	return ""
}

func vbRowOf(p cashu.Proof) storage.DBProof {
	return storage.DBProof{Amount: p.Amount, Id: p.Id, Secret: p.Secret, Y: vbYof(p.Secret), C: p.C, Witness: p.Witness}
}

func vbPendRowOf(p cashu.Proof, q string) storage.DBProof {
	r := vbRowOf(p)
	r.MeltQuoteId = q
	return r
}

func vbPubStr(p *secp256k1.PublicKey) string {
	if p == nil {
		return "nil"
	}
	return hex.EncodeToString(p.SerializeCompressed())
}

func vbMQEq(a, b storage.MintQuote) bool {
	return a.Id == b.Id && a.Amount == b.Amount && a.PaymentRequest == b.PaymentRequest &&
		a.PaymentHash == b.PaymentHash && a.State == b.State && a.Expiry == b.Expiry &&
		vbPubStr(a.Pubkey) == vbPubStr(b.Pubkey)
}

func vbMQStr(q storage.MintQuote) string {
	return fmt.Sprintf("{Id:%q Amount:%d Req:%q Hash:%q State:%v Expiry:%d Pubkey:%.10s}", q.Id, q.Amount, q.PaymentRequest, q.PaymentHash, q.State, q.Expiry, vbPubStr(q.Pubkey))
}

func vbContains(l []string, s string) bool {
	for _, x := range l {
		if x == s {
			return true
		}
	}
	return false
}

func vbYn(y string) string {
	if n, ok := vbYName[y]; ok {
		return n
	}
	return fmt.Sprintf("%.12q", y)
}

func vbYns(ys []string) string {
	o := make([]string, len(ys))
	for i, y := range ys {
		o[i] = vbYn(y)
	}
	return "[" + strings.Join(o, ",") + "]"
}

// ---- harness state ---------------------------------------------------------------

// vbViol: one violated clause of a getter contract. own = the clause speaks
// about the getter's own error behaviour / result shape (attributed to the
// getter even during a read-back); otherwise it is a mismatch between the
// result and the table contents.
type vbViol struct {
	own    bool
	clause string
	msg    string
}

type vbH struct {
	db       *SQLiteDB
	m        *vbModel
	rng      *rand.Rand
	seed     uint64
	seq      int
	step     int
	trace    []string
	cases    int
	reads    int
	fails    []vbFailure // every distinct witness; cut to 8 when printed
	seen     map[string]bool
	faults   int // errors accepted as storage faults (see chkTotal, vbFaultOK)
	diverged bool
}

func (h *vbH) fail(witness, format string, a ...any) {
	if h.seen[witness] {
		return
	}
	h.seen[witness] = true
	tr := strings.Join(h.trace, "; ")
	if len(tr) > 900 {
		tr = "..." + tr[len(tr)-900:]
	}
	msg := fmt.Sprintf("seed=%d seq=%d step=%d ops=[%s] :: %s", h.seed, h.seq, h.step, tr, fmt.Sprintf(format, a...))
	h.fails = append(h.fails, vbFailure{Witness: witness, Msg: msg})
}

func vbOwn(v *[]vbViol, clause, format string, a ...any) {
	*v = append(*v, vbViol{true, clause, fmt.Sprintf(format, a...)})
}

func vbVal(v *[]vbViol, clause, format string, a ...any) {
	*v = append(*v, vbViol{false, clause, fmt.Sprintf(format, a...)})
}

// ---- getters: call + check every ensures clause against model m ----------------------

// GetProofsUsed / GetPendingProofs share the clause shapes.
func (h *vbH) chkProofsByY(name string, tab map[string]storage.DBProof, get func([]string) ([]storage.DBProof, error), Ys []string) []vbViol {
	h.reads++
	r, err := get(Ys)
	var v []vbViol
	if err != nil {
		vbOwn(&v, "err-iff", "%s(%s): err=%v, want nil (err == nil <==> db.faults == old(db.faults))", name, vbYns(Ys), err)
		if errors.Is(err, sql.ErrNoRows) {
			vbOwn(&v, "not-ErrNoRows", "%s(%s): err is sql.ErrNoRows", name, vbYns(Ys))
		}
		if r != nil {
			vbOwn(&v, "err-nil-result", "%s(%s): err != nil but r0 != nil", name, vbYns(Ys))
		}
		return v
	}
	for j, p := range r {
		row, ok := tab[p.Y]
		if !ok {
			vbVal(&v, "sound", "%s(%s): r0[%d].Y=%s is not in the table (model keys %s)", name, vbYns(Ys), j, vbYn(p.Y), vbKeys(tab))
		} else if p != row {
			vbVal(&v, "row", "%s(%s): r0[%d]=%+v, want row %+v", name, vbYns(Ys), j, p, row)
		}
		if !vbContains(Ys, p.Y) {
			vbVal(&v, "requested", "%s(%s): r0[%d].Y=%s was not asked for", name, vbYns(Ys), j, vbYn(p.Y))
		}
	}
	for _, y := range Ys {
		if _, ok := tab[y]; !ok {
			continue
		}
		found := false
		for _, p := range r {
			found = found || p.Y == y
		}
		if !found {
			vbVal(&v, "complete", "%s(%s): %s is in the table but not in r0 (len %d)", name, vbYns(Ys), vbYn(y), len(r))
		}
	}
	return v
}

func vbKeys[V any](m map[string]V) string {
	var k []string
	for x := range m {
		k = append(k, vbYn(x))
	}
	sort.Strings(k)
	return "{" + strings.Join(k, ",") + "}"
}

func (h *vbH) chkGetProofsUsed(m *vbModel, Ys []string) []vbViol {
	return h.chkProofsByY("GetProofsUsed", m.spent, h.db.GetProofsUsed, Ys)
}

func (h *vbH) chkGetPendingProofs(m *vbModel, Ys []string) []vbViol {
	return h.chkProofsByY("GetPendingProofs", m.pending, h.db.GetPendingProofs, Ys)
}

func (h *vbH) chkGetPendingProofsByQuote(m *vbModel, q string) []vbViol {
	h.reads++
	r, err := h.db.GetPendingProofsByQuote(q)
	var v []vbViol
	if err != nil {
		vbOwn(&v, "err-iff", "GetPendingProofsByQuote(%q): err=%v, want nil", q, err)
		if r != nil {
			vbOwn(&v, "err-nil-result", "GetPendingProofsByQuote(%q): err != nil but r0 != nil", q)
		}
		return v
	}
	seen := map[string]bool{}
	for j, p := range r {
		if p.Y != vbYof(p.Secret) {
			vbOwn(&v, "Y-is-Yof-Secret", "GetPendingProofsByQuote(%q): r0[%d].Y=%s != Yof(Secret %q)", q, j, vbYn(p.Y), p.Secret)
		}
		row, ok := m.pending[p.Y]
		if !ok {
			vbVal(&v, "sound", "GetPendingProofsByQuote(%q): r0[%d].Y=%s not pending (model %s)", q, j, vbYn(p.Y), vbKeys(m.pending))
		} else {
			if row.MeltQuoteId != q {
				vbVal(&v, "sound-quote", "GetPendingProofsByQuote(%q): r0[%d].Y=%s belongs to quote %q", q, j, vbYn(p.Y), row.MeltQuoteId)
			}
			if !(p.Y == row.Y && p.Amount == row.Amount && p.Id == row.Id && p.Secret == row.Secret && p.C == row.C && p.Witness == row.Witness) {
				vbVal(&v, "row", "GetPendingProofsByQuote(%q): r0[%d]=%+v, want fields of %+v", q, j, p, row)
			}
		}
		if seen[p.Y] {
			vbVal(&v, "distinct", "GetPendingProofsByQuote(%q): Y=%s returned twice", q, vbYn(p.Y))
		}
		seen[p.Y] = true
	}
	for y, row := range m.pending {
		if row.MeltQuoteId == q && !seen[y] {
			vbVal(&v, "complete", "GetPendingProofsByQuote(%q): pending %s of this quote is not in r0 (len %d)", q, vbYn(y), len(r))
		}
	}
	return v
}

func (h *vbH) chkGetBlindSignatures(m *vbModel, Bs []string) []vbViol {
	h.reads++
	r, err := h.db.GetBlindSignatures(Bs)
	var v []vbViol
	if err != nil {
		vbOwn(&v, "err-iff", "GetBlindSignatures(%q): err=%v, want nil", Bs, err)
		if r != nil {
			vbOwn(&v, "err-nil-result", "GetBlindSignatures(%q): err != nil but r0 != nil", Bs)
		}
		return v
	}
	none := true
	for _, b := range Bs {
		if _, ok := m.sig[b]; ok {
			none = false
		}
	}
	if (len(r) == 0) != none {
		vbVal(&v, "empty-iff-none-signed", "GetBlindSignatures(%q): len(r0)=%d but none-signed=%v (model %s)", Bs, len(r), none, vbKeys(m.sig))
	}
	return v
}

func (h *vbH) chkGetBlindSignature(m *vbModel, B string) []vbViol {
	h.reads++
	r, err := h.db.GetBlindSignature(B)
	var v []vbViol
	row, ok := m.sig[B]
	if (err == nil) != ok {
		vbVal(&v, "err-iff", "GetBlindSignature(%q): err=%v but db.sig[B_]=%v", B, err, ok)
	}
	if errors.Is(err, sql.ErrNoRows) != (err != nil) {
		vbOwn(&v, "ErrNoRows-iff", "GetBlindSignature(%q): err=%v: err.is(sql.ErrNoRows) <==> err != nil (no faults) violated", B, err)
	}
	if err == nil && ok {
		if r.DLEQ == nil {
			vbVal(&v, "row", "GetBlindSignature(%q): DLEQ == nil", B)
		} else if got := (vbSigRow{r.Amount, r.C_, r.Id, r.DLEQ.E, r.DLEQ.S}); got != row {
			vbVal(&v, "row", "GetBlindSignature(%q): got %+v want %+v", B, got, row)
		}
	}
	return v
}

func (h *vbH) chkGetMintQuote(m *vbModel, id string) []vbViol {
	h.reads++
	r, err := h.db.GetMintQuote(id)
	var v []vbViol
	row, ok := m.mq[id]
	if (err == nil) != ok {
		vbVal(&v, "err-iff", "GetMintQuote(%q): err=%v but db.mq[id]=%v", id, err, ok)
	}
	if err == nil {
		if ok && !vbMQEq(r, row) {
			vbVal(&v, "row", "GetMintQuote(%q): got %s want %s", id, vbMQStr(r), vbMQStr(row))
		}
		if r.Id != id {
			vbVal(&v, "row", "GetMintQuote(%q): r0.Id=%q", id, r.Id)
		}
		if !vbMintInv(r) {
			vbOwn(&v, "mintinv", "GetMintQuote(%q): mintinv(r0) false for %s", id, vbMQStr(r))
		}
		if r.Amount >= vbHuge {
			vbOwn(&v, "amount-lt-2^63", "GetMintQuote(%q): r0.Amount=%d", id, r.Amount)
		}
	}
	return v
}

func (h *vbH) chkGetMintQuoteByPaymentHash(m *vbModel, hash string) []vbViol {
	h.reads++
	r, err := h.db.GetMintQuoteByPaymentHash(hash)
	var v []vbViol
	if err == nil {
		row, ok := m.mq[r.Id]
		if !ok {
			vbVal(&v, "sound", "GetMintQuoteByPaymentHash(%q): r0.Id=%q is not a stored quote (model %s)", hash, r.Id, vbKeys(m.mq))
		} else if !vbMQEq(r, row) {
			vbVal(&v, "row", "GetMintQuoteByPaymentHash(%q): got %s want %s", hash, vbMQStr(r), vbMQStr(row))
		}
		if r.PaymentHash != hash {
			vbVal(&v, "hash", "GetMintQuoteByPaymentHash(%q): r0.PaymentHash=%q", hash, r.PaymentHash)
		}
		if !vbMintInv(r) {
			vbOwn(&v, "mintinv", "GetMintQuoteByPaymentHash(%q): mintinv(r0) false for %s", hash, vbMQStr(r))
		}
		if r.Amount >= vbHuge {
			vbOwn(&v, "amount-lt-2^63", "GetMintQuoteByPaymentHash(%q): r0.Amount=%d", hash, r.Amount)
		}
		return v
	}
	for id, row := range m.mq {
		if row.PaymentHash == hash {
			vbVal(&v, "complete", "GetMintQuoteByPaymentHash(%q): err=%v although quote %q has this hash", hash, err, id)
			break
		}
	}
	return v
}

func (h *vbH) chkGetMeltQuote(m *vbModel, id string) []vbViol {
	h.reads++
	r, err := h.db.GetMeltQuote(id)
	var v []vbViol
	row, ok := m.melt[id]
	if (err == nil) != ok {
		vbVal(&v, "err-iff", "GetMeltQuote(%q): err=%v but db.melt[id]=%v", id, err, ok)
	}
	if err == nil {
		if ok && r != row {
			vbVal(&v, "row", "GetMeltQuote(%q): got %+v want %+v", id, r, row)
		}
		if r.Id != id {
			vbVal(&v, "row", "GetMeltQuote(%q): r0.Id=%q", id, r.Id)
		}
		if why := vbMeltInv(r); why != "" {
			vbOwn(&v, "meltinv", "GetMeltQuote(%q): meltinv(r0) false (%s) for %+v", id, why, r)
		}
	}
	return v
}

func (h *vbH) chkGetMeltQuoteByPaymentRequest(m *vbModel, inv string) []vbViol {
	h.reads++
	r, err := h.db.GetMeltQuoteByPaymentRequest(inv)
	var v []vbViol
	if err == nil {
		if r == nil {
			vbOwn(&v, "non-nil", "GetMeltQuoteByPaymentRequest(%q): err == nil but r0 == nil", inv)
			return v
		}
		row, ok := m.melt[r.Id]
		if !ok {
			vbVal(&v, "sound", "GetMeltQuoteByPaymentRequest(%q): r0.Id=%q is not a stored quote (model %s)", inv, r.Id, vbKeys(m.melt))
		} else if *r != row {
			vbVal(&v, "row", "GetMeltQuoteByPaymentRequest(%q): got %+v want %+v", inv, *r, row)
		}
		if r.InvoiceRequest != inv {
			vbVal(&v, "request", "GetMeltQuoteByPaymentRequest(%q): r0.InvoiceRequest=%q", inv, r.InvoiceRequest)
		}
		return v
	}
	if r != nil {
		vbOwn(&v, "err-nil-result", "GetMeltQuoteByPaymentRequest(%q): err != nil but r0 != nil", inv)
	}
	for id, row := range m.melt {
		if row.InvoiceRequest == inv {
			vbVal(&v, "complete", "GetMeltQuoteByPaymentRequest(%q): err=%v although quote %q has this request", inv, err, id)
			break
		}
	}
	return v
}

// GetIssuedEcash / GetRedeemedEcash. perKeyset = the model's per-keyset totals
// of the table the view sums over. SQLite's SUM raises "integer overflow" when a
// per-keyset total does not fit int64; triage: that error is a storage fault, so
// an error is accepted iff some per-keyset total is >= 2^63. A nil error must
// always come with the right map.
func (h *vbH) chkTotal(name string, get func() (map[string]uint64, error), want *big.Int, perKeyset map[string]*big.Int) []vbViol {
	h.reads++
	r, err := get()
	var v []vbViol
	if err != nil {
		for _, tot := range perKeyset {
			if tot.BitLen() > 63 {
				h.faults++
				return v
			}
		}
		vbOwn(&v, "err-iff", "%s(): err=%v, want nil (every per-keyset total < 2^63: %v; ghost total %s)", name, err, perKeyset, want)
		return v
	}
	if r == nil {
		vbOwn(&v, "non-nil", "%s(): r0 == nil", name)
	}
	sum := new(big.Int)
	for _, a := range r {
		sum.Add(sum, new(big.Int).SetUint64(a))
	}
	if sum.Cmp(want) != 0 {
		// own: the rows the view sums over are compared one by one through the
		// other getters, so a wrong total with right rows is the getter's (view's) deviation
		vbOwn(&v, "sum", "%s(): err == nil but mapsum(r0)=%s (r0=%v), want ghost total %s (per keyset %v)", name, sum, r, want, perKeyset)
	}
	return v
}

func (m *vbModel) spentPerKeyset() map[string]*big.Int {
	o := map[string]*big.Int{}
	for _, r := range m.spent {
		if o[r.Id] == nil {
			o[r.Id] = new(big.Int)
		}
		o[r.Id].Add(o[r.Id], new(big.Int).SetUint64(r.Amount))
	}
	return o
}

func (m *vbModel) sigPerKeyset() map[string]*big.Int {
	o := map[string]*big.Int{}
	for _, r := range m.sig {
		if o[r.Id] == nil {
			o[r.Id] = new(big.Int)
		}
		o[r.Id].Add(o[r.Id], new(big.Int).SetUint64(r.Amount))
	}
	return o
}

func (h *vbH) chkGetSeed(m *vbModel) []vbViol {
	h.reads++
	r, err := h.db.GetSeed()
	var v []vbViol
	if (err == nil) != m.seedset {
		vbVal(&v, "err-iff", "GetSeed(): err=%v but db.seedset=%v", err, m.seedset)
	}
	if err == nil && m.seedset && string(r) != string(m.seed) {
		vbVal(&v, "bytes", "GetSeed(): got %x want %x", r, m.seed)
	}
	if errors.Is(err, sql.ErrNoRows) != !m.seedset {
		vbVal(&v, "ErrNoRows-iff", "GetSeed(): err=%v but db.seedset=%v (err.is(sql.ErrNoRows) <==> !db.seedset)", err, m.seedset)
	}
	return v
}

func (h *vbH) chkGetKeysets(m *vbModel) []vbViol {
	h.reads++
	r, err := h.db.GetKeysets()
	var v []vbViol
	if err != nil {
		vbOwn(&v, "err-iff", "GetKeysets(): err=%v, want nil", err)
		return v
	}
	seen := map[string]bool{}
	for j, k := range r {
		row, ok := m.ks[k.Id]
		if !ok {
			vbVal(&v, "sound", "GetKeysets(): r0[%d].Id=%q is not a stored keyset (model %s)", j, k.Id, vbKeys(m.ks))
		} else if k != row {
			vbVal(&v, "row", "GetKeysets(): r0[%d]=%+v want %+v", j, k, row)
		}
		if seen[k.Id] {
			vbVal(&v, "distinct", "GetKeysets(): id %q returned twice", k.Id)
		}
		seen[k.Id] = true
	}
	for id := range m.ks {
		if !seen[id] {
			vbVal(&v, "complete", "GetKeysets(): stored keyset %q missing from r0 (len %d)", id, len(r))
		}
	}
	return v
}

// ---- read-back of the whole store ---------------------------------------------------

var vbBatchOps = map[string]bool{"SaveProofs": true, "AddPendingProofs": true, "SaveBlindSignatures": true}

type vbTagged struct {
	fn string
	v  []vbViol
}

// readback compares the store with `want` through every getter over the full
// pools. mods = ghost tables in the `modifies` list of op.
func (h *vbH) readback(want *vbModel, op string, mods []string, errNil bool) {
	tables := []struct {
		name string
		chk  func() []vbTagged
	}{
		{"spent", func() []vbTagged { return []vbTagged{{"GetProofsUsed", h.chkGetProofsUsed(want, vbYQuery)}} }},
		{"pending", func() []vbTagged {
			o := []vbTagged{{"GetPendingProofs", h.chkGetPendingProofs(want, vbYQuery)}}
			for _, q := range vbMeltQuery {
				o = append(o, vbTagged{"GetPendingProofsByQuote", h.chkGetPendingProofsByQuote(want, q)})
			}
			return o
		}},
		{"mq", func() []vbTagged {
			var o []vbTagged
			for _, id := range vbMintQuery {
				o = append(o, vbTagged{"GetMintQuote", h.chkGetMintQuote(want, id)})
			}
			for _, x := range vbMintHashQuery {
				o = append(o, vbTagged{"GetMintQuoteByPaymentHash", h.chkGetMintQuoteByPaymentHash(want, x)})
			}
			return o
		}},
		{"melt", func() []vbTagged {
			var o []vbTagged
			for _, id := range vbMeltQuery {
				o = append(o, vbTagged{"GetMeltQuote", h.chkGetMeltQuote(want, id)})
			}
			for _, x := range vbMeltReqQuery {
				o = append(o, vbTagged{"GetMeltQuoteByPaymentRequest", h.chkGetMeltQuoteByPaymentRequest(want, x)})
			}
			return o
		}},
		{"sig", func() []vbTagged {
			o := []vbTagged{{"GetBlindSignatures", h.chkGetBlindSignatures(want, vbB_Query)}}
			for _, b := range vbB_Query {
				o = append(o, vbTagged{"GetBlindSignature", h.chkGetBlindSignature(want, b)})
			}
			return o
		}},
		{"ks", func() []vbTagged { return []vbTagged{{"GetKeysets", h.chkGetKeysets(want)}} }},
		{"seed", func() []vbTagged { return []vbTagged{{"GetSeed", h.chkGetSeed(want)}} }},
		{"issuedtotal", func() []vbTagged {
			return []vbTagged{{"GetIssuedEcash", h.chkTotal("GetIssuedEcash", h.db.GetIssuedEcash, want.issued, want.sigPerKeyset())}}
		}},
		{"redeemedtotal", func() []vbTagged {
			return []vbTagged{{"GetRedeemedEcash", h.chkTotal("GetRedeemedEcash", h.db.GetRedeemedEcash, want.redeemed, want.spentPerKeyset())}}
		}},
	}
	for _, tb := range tables {
		label := "frame"
		if vbContains(mods, tb.name) {
			switch {
			case errNil:
				label = "post"
			case vbBatchOps[op]:
				label = "all-or-nothing"
			default:
				label = "err-unchanged"
			}
		}
		for _, tg := range tb.chk() {
			for _, x := range tg.v {
				if x.own {
					h.fail(tg.fn+"/"+x.clause, "%s", x.msg)
					continue
				}
				h.diverged = true
				h.fail(op+"/"+label+":"+tb.name, "read-back after %s (err==nil: %v) disagrees with the contract's post-state of db.%s: %s [%s]", op, errNil, tb.name, x.msg, x.clause)
			}
		}
	}
}

func (h *vbH) note(format string, a ...any) { h.trace = append(h.trace, fmt.Sprintf(format, a...)) }

func (h *vbH) finish(op string, want *vbModel, mods []string, errNil bool) {
	h.readback(want, op, mods, errNil)
	if !h.diverged {
		h.m = want
	}
}

func (h *vbH) getterOp(fn string, v []vbViol) {
	for _, x := range v {
		h.fail(fn+"/"+x.clause, "%s", x.msg)
	}
	h.finish(fn, h.m.clone(), nil, true)
}

// ---- generators ------------------------------------------------------------------------

func vbErrStr(err error) string {
	if err == nil {
		return "ok"
	}
	return "ERR"
}

func vbAmt(a uint64) string {
	for _, e := range []uint{32, 62, 63} {
		if a == 1<<e {
			return fmt.Sprintf("2^%d", e)
		}
	}
	return strconv.FormatUint(a, 10)
}

func vbPick[T any](h *vbH, l []T) T { return l[h.rng.IntN(len(l))] }

func (h *vbH) amount(pool []uint64, huge bool) uint64 {
	if huge && h.rng.IntN(14) == 0 {
		return vbHuge
	}
	return vbPick(h, pool)
}

// pickIdx draws a batch (size 0..3) of pool indices; the modes force the
// interesting shapes (all fresh, only the last collides with a stored key, the
// last duplicates the first, only the first collides) next to plain random.
func (h *vbH) pickIdx(n int, taken func(int) bool) []int {
	size := h.rng.IntN(4)
	mode := h.rng.IntN(6)
	var fresh, used []int
	for i := 0; i < n; i++ {
		if taken(i) {
			used = append(used, i)
		} else {
			fresh = append(fresh, i)
		}
	}
	h.rng.Shuffle(len(fresh), func(a, b int) { fresh[a], fresh[b] = fresh[b], fresh[a] })
	h.rng.Shuffle(len(used), func(a, b int) { used[a], used[b] = used[b], used[a] })
	take := func(k int) []int {
		if k > len(fresh) {
			k = len(fresh)
		}
		if k < 0 {
			k = 0
		}
		return append([]int{}, fresh[:k]...)
	}
	var out []int
	switch {
	case size == 0:
	case mode <= 1:
		for i := 0; i < size; i++ {
			out = append(out, h.rng.IntN(n))
		}
	case mode == 2:
		out = take(size)
	case mode == 3:
		out = take(size - 1)
		if len(used) > 0 {
			out = append(out, used[0])
		} else if len(out) > 0 {
			out = append(out, out[0])
		}
	case mode == 4:
		out = take(size - 1)
		if len(out) > 0 {
			out = append(out, out[0])
		}
	default:
		if len(used) > 0 {
			out = append(out, used[0])
		}
		out = append(out, take(size-1)...)
	}
	return out
}

func (h *vbH) genProofs(tab map[string]storage.DBProof) (cashu.Proofs, string) {
	idx := h.pickIdx(len(vbSecrets), func(i int) bool { _, ok := tab[vbYs[i]]; return ok })
	ps := cashu.Proofs{}
	if len(idx) == 0 && h.rng.IntN(2) == 0 {
		ps = nil
	}
	var d []string
	for _, i := range idx {
		p := cashu.Proof{Amount: h.amount(vbAmounts, vbHugeProofAmount), Id: vbPick(h, vbKeysetIds), Secret: vbSecrets[i], C: vbPick(h, vbCs), Witness: vbPick(h, vbWitnesses)}
		ps = append(ps, p)
		d = append(d, fmt.Sprintf("s%d:%s:%s:%q:%q", i, vbAmt(p.Amount), p.Id, p.C, p.Witness))
	}
	return ps, "[" + strings.Join(d, " ") + "]"
}

func (h *vbH) genYs() []string {
	n := h.rng.IntN(4)
	var ys []string
	if n == 0 && h.rng.IntN(2) == 0 {
		return nil
	}
	for i := 0; i < n; i++ {
		if h.rng.IntN(4) == 0 {
			ys = append(ys, vbPick(h, vbYQuery))
		} else {
			ys = append(ys, vbPick(h, vbYs))
		}
	}
	if ys == nil {
		ys = []string{}
	}
	return ys
}

// ---- mutators: call, check the err clauses on the pre-state, build the post-state ----------

// proof batches: SaveProofs and AddPendingProofs have the same err clause.
func vbBatchCond(ps cashu.Proofs, tab map[string]storage.DBProof) (cond, huge bool, sum *big.Int) {
	cond, sum = true, new(big.Int)
	seen := map[string]bool{}
	for _, p := range ps {
		y := vbYof(p.Secret)
		if _, ok := tab[y]; ok || seen[y] {
			cond = false
		}
		seen[y] = true
		huge = huge || p.Amount >= vbHuge
		sum.Add(sum, new(big.Int).SetUint64(p.Amount))
	}
	return
}

// vbFaultOK: err != nil although the clause's logical condition holds. Accepted
// as a storage fault iff some uint64 argument field is >= 2^63 (database/sql
// refuses it); the caller's read-back still checks that nothing was stored.
func (h *vbH) vbFaultOK(err error, cond, huge bool) bool {
	if err != nil && cond && huge {
		h.faults++
		return true
	}
	return false
}

func vbHugeTag(huge bool, field string) string {
	if huge {
		return "#" + field + ">=2^63"
	}
	return ""
}

func (h *vbH) opSaveProofs() {
	ps, d := h.genProofs(h.m.spent)
	cond, huge, sum := vbBatchCond(ps, h.m.spent)
	err := h.db.SaveProofs(ps)
	h.note("SaveProofs(%s)=%s", d, vbErrStr(err))
	if (err == nil) != cond && !h.vbFaultOK(err, cond, huge) {
		h.fail("SaveProofs/err-iff", "err=%v but (no secret of ps spent before && Ys pairwise distinct)=%v (some Amount >= 2^63: %v)", err, cond, huge)
	}
	want := h.m.clone()
	if err == nil {
		for _, p := range ps {
			if _, ok := want.spent[vbYof(p.Secret)]; !ok { // rows of old(db.spent) keep their value
				want.spent[vbYof(p.Secret)] = vbRowOf(p)
			}
		}
		want.redeemed.Add(want.redeemed, sum)
	}
	h.finish("SaveProofs", want, []string{"spent", "redeemedtotal"}, err == nil)
}

func (h *vbH) opAddPendingProofs() {
	ps, d := h.genProofs(h.m.pending)
	q := vbPick(h, vbMeltQuery)
	cond, huge, _ := vbBatchCond(ps, h.m.pending)
	err := h.db.AddPendingProofs(ps, q)
	h.note("AddPendingProofs(%s,%q)=%s", d, q, vbErrStr(err))
	if (err == nil) != cond && !h.vbFaultOK(err, cond, huge) {
		h.fail("AddPendingProofs/err-iff", "err=%v but (no secret of ps pending before && Ys pairwise distinct)=%v (some Amount >= 2^63: %v)", err, cond, huge)
	}
	want := h.m.clone()
	if err == nil {
		for _, p := range ps {
			if _, ok := want.pending[vbYof(p.Secret)]; !ok {
				want.pending[vbYof(p.Secret)] = vbPendRowOf(p, q)
			}
		}
	}
	h.finish("AddPendingProofs", want, []string{"pending"}, err == nil)
}

func (h *vbH) opRemovePendingProofs() {
	ys := h.genYs()
	err := h.db.RemovePendingProofs(ys)
	h.note("RemovePendingProofs(%s)=%s", vbYns(ys), vbErrStr(err))
	if err != nil {
		h.fail("RemovePendingProofs/err-iff", "err=%v, want nil (err == nil <==> db.faults == old(db.faults))", err)
	}
	want := h.m.clone()
	if err == nil {
		for _, y := range ys {
			delete(want.pending, y)
		}
	}
	h.finish("RemovePendingProofs", want, []string{"pending"}, err == nil)
}

func (h *vbH) opSaveBlindSignatures() {
	idx := h.pickIdx(len(vbB_s), func(i int) bool { _, ok := h.m.sig[vbB_s[i]]; return ok })
	sigs := cashu.BlindedSignatures{}
	Bs := []string{}
	if len(idx) == 0 && h.rng.IntN(2) == 0 {
		sigs, Bs = nil, nil
	}
	var d []string
	cond, huge := true, false
	sum := new(big.Int)
	seen := map[string]bool{}
	for _, i := range idx {
		s := cashu.BlindedSignature{Amount: h.amount(vbAmounts, vbHugeSigAmount), C_: vbPick(h, []string{"C0", "C1"}), Id: vbPick(h, vbKeysetIds),
			DLEQ: &cashu.DLEQProof{E: vbPick(h, vbDleqStrs), S: vbPick(h, vbDleqStrs), R: "r-not-stored"}}
		sigs = append(sigs, s)
		Bs = append(Bs, vbB_s[i])
		d = append(d, fmt.Sprintf("%s:%s:%s:%s:%q:%q", vbB_s[i], vbAmt(s.Amount), s.Id, s.C_, s.DLEQ.E, s.DLEQ.S))
		if _, ok := h.m.sig[vbB_s[i]]; ok || seen[vbB_s[i]] {
			cond = false
		}
		seen[vbB_s[i]] = true
		huge = huge || s.Amount >= vbHuge
		sum.Add(sum, new(big.Int).SetUint64(s.Amount))
	}
	extra := ""
	if h.rng.IntN(4) == 0 { // len(B_s) > len(blindSignatures): the surplus B_ is not looked at by the clauses
		extra = vbPick(h, vbB_s)
		Bs = append(Bs, extra)
		extra = " +B_ " + extra
	}
	err := h.db.SaveBlindSignatures(Bs, sigs)
	h.note("SaveBlindSignatures([%s]%s)=%s", strings.Join(d, " "), extra, vbErrStr(err))
	if (err == nil) != cond && !h.vbFaultOK(err, cond, huge) {
		h.fail("SaveBlindSignatures/err-iff", "err=%v but (no B_s[i<len(sigs)] signed before && pairwise distinct)=%v (some Amount >= 2^63: %v)", err, cond, huge)
	}
	want := h.m.clone()
	if err == nil {
		for i, s := range sigs {
			if _, ok := want.sig[Bs[i]]; !ok {
				want.sig[Bs[i]] = vbSigRow{s.Amount, s.C_, s.Id, s.DLEQ.E, s.DLEQ.S}
			}
		}
		want.issued.Add(want.issued, sum)
	}
	h.finish("SaveBlindSignatures", want, []string{"sig", "issuedtotal"}, err == nil)
}

func (h *vbH) expiry(huge bool) uint64 {
	if huge && h.rng.IntN(10) == 0 {
		return vbHuge
	}
	return vbPick(h, vbExpiries)
}

var vbMintStates = []nut04.State{nut04.Unpaid, nut04.Paid, nut04.Issued, nut04.Pending}
var vbMeltStates = []nut05.State{nut05.Unpaid, nut05.Pending, nut05.Paid}

func (h *vbH) opSaveMintQuote() {
	ri := h.rng.IntN(9)
	if ri >= len(vbMintReqs) {
		ri = h.rng.IntN(4)
	}
	rq := vbMintReqs[ri]
	mq := storage.MintQuote{Id: vbPick(h, vbMintIds), Amount: rq.amount, PaymentRequest: rq.req, PaymentHash: rq.hash,
		State: vbPick(h, vbMintStates), Expiry: h.expiry(vbHugeMintExpiry), Pubkey: vbPick(h, vbPubs)}
	_, exists := h.m.mq[mq.Id]
	err := h.db.SaveMintQuote(mq)
	h.note("SaveMintQuote(%s)=%s", vbMQStr(mq), vbErrStr(err))
	cond := !exists && mq.Amount < vbHuge
	if err == nil && !cond {
		h.fail("SaveMintQuote/ok-only-if", "err == nil but !old(db.mq)[mq.Id]=%v, mq.Amount=%d", !exists, mq.Amount)
	}
	if cond && err != nil && !h.vbFaultOK(err, cond, mq.Expiry >= vbHuge) {
		h.fail("SaveMintQuote/ok-if", "err=%v although !old(db.mq)[mq.Id] && mq.Amount < 2^63 (Expiry=%d)", err, mq.Expiry)
	}
	want := h.m.clone()
	if err == nil {
		want.mq[mq.Id] = mq
	}
	h.finish("SaveMintQuote", want, []string{"mq"}, err == nil)
}

func (h *vbH) opUpdateMintQuoteState() {
	id := vbPick(h, vbMintQuery)
	row, exists := h.m.mq[id]
	st := vbPick(h, vbMintStates)
	if exists { // requires @legal
		var legal []nut04.State
		for _, s := range vbMintStates {
			if vbLegalMint(row.State, s) {
				legal = append(legal, s)
			}
		}
		st = vbPick(h, legal)
	}
	err := h.db.UpdateMintQuoteState(id, st)
	h.note("UpdateMintQuoteState(%q,%v)=%s", id, st, vbErrStr(err))
	if (err == nil) != exists {
		h.fail("UpdateMintQuoteState/err-iff", "err=%v but db.mq[quoteId]=%v", err, exists)
	}
	want := h.m.clone()
	if err == nil && exists {
		row.State = st
		want.mq[id] = row
	}
	h.finish("UpdateMintQuoteState", want, []string{"mq"}, err == nil)
}

func (h *vbH) opSaveMeltQuote() {
	rq := vbPick(h, vbMeltReqs)
	mq := storage.MeltQuote{Id: vbPick(h, vbMeltIds), InvoiceRequest: rq.req, PaymentHash: rq.hash,
		State: vbPick(h, vbMeltStates), Expiry: h.expiry(vbHugeMeltExpiry), IsMpp: h.rng.IntN(3) == 0}
	mq.AmountMsat = vbPick(h, vbMeltMsats)
	if vbHugeMeltAmountMsat && h.rng.IntN(10) == 0 {
		mq.AmountMsat = vbHuge
	}
	if mq.IsMpp {
		mq.FeeReserve = vbLnFee(mq.AmountMsat / 1000)
		mq.Amount = vbPick(h, vbMeltAmounts)
		if mq.Amount < mq.FeeReserve {
			mq.Amount = mq.FeeReserve
		}
	} else {
		mq.Amount = rq.amount
		mq.FeeReserve = vbPick(h, []uint64{0, 1, mq.Amount / 2, mq.Amount})
		if mq.FeeReserve > mq.Amount {
			mq.FeeReserve = mq.Amount
		}
	}
	if mq.State == nut05.Paid {
		mq.Preimage = vbPick(h, vbPreimages)
	}
	if why := vbMeltInv(mq); why != "" {
		panic("generator broke requires meltinv: " + why)
	}
	_, exists := h.m.melt[mq.Id]
	err := h.db.SaveMeltQuote(mq)
	h.note("SaveMeltQuote(%+v)=%s", mq, vbErrStr(err))
	huge := mq.Expiry >= vbHuge || mq.AmountMsat >= vbHuge || mq.Amount >= vbHuge || mq.FeeReserve >= vbHuge
	if (err == nil) != !exists && !h.vbFaultOK(err, !exists, huge) {
		h.fail("SaveMeltQuote/err-iff", "err=%v but !old(db.melt)[mq.Id]=%v (some uint64 field >= 2^63: %v)", err, !exists, huge)
	}
	want := h.m.clone()
	if err == nil {
		want.melt[mq.Id] = mq
	}
	h.finish("SaveMeltQuote", want, []string{"melt"}, err == nil)
}

func (h *vbH) opUpdateMeltQuote() {
	id := vbPick(h, vbMeltQuery)
	row, exists := h.m.melt[id]
	st := vbPick(h, append([]nut05.State{nut05.Unknown}, vbMeltStates...))
	if exists { // requires @legal
		var legal []nut05.State
		for _, s := range vbMeltStates {
			if vbLegalMelt(row.State, s) {
				legal = append(legal, s)
			}
		}
		if len(legal) == 0 { // PAID is final: no call satisfies the requires
			id, exists = "lq-unknown", false
		} else {
			st = vbPick(h, legal)
		}
	}
	pre := vbPick(h, vbPreimages)
	if vbMeltPreimageOnlyWhenPaid && st != nut05.Paid { // requires state != nut05.Paid ==> preimage == ""
		pre = ""
	}
	err := h.db.UpdateMeltQuote(id, pre, st)
	h.note("UpdateMeltQuote(%q,%q,%v)=%s", id, pre, st, vbErrStr(err))
	if (err == nil) != exists {
		h.fail("UpdateMeltQuote/err-iff", "err=%v but db.melt[quoteId]=%v", err, exists)
	}
	want := h.m.clone()
	if err == nil && exists {
		row.State, row.Preimage = st, pre
		want.melt[id] = row
	}
	h.finish("UpdateMeltQuote", want, []string{"melt"}, err == nil)
}

func (h *vbH) opSaveSeed() {
	seed := vbPick(h, vbSeeds)
	err := h.db.SaveSeed(seed)
	h.note("SaveSeed(%x)=%s", seed, vbErrStr(err))
	want := h.m.clone()
	if err == nil {
		want.seedset, want.seed = true, append([]byte(nil), seed...)
	}
	h.finish("SaveSeed", want, []string{"seed"}, err == nil)
}

func (h *vbH) opSaveKeyset() {
	ks := storage.DBKeyset{Id: vbPick(h, vbKeysetIds), Unit: vbPick(h, vbUnits), Active: h.rng.IntN(2) == 0, Seed: vbPick(h, vbKsSeeds),
		DerivationPathIdx: vbPick(h, vbPathIdx), InputFeePpk: vbPick(h, vbKsFees)}
	if vbHugeKeysetFee && h.rng.IntN(10) == 0 {
		ks.InputFeePpk = uint(vbHuge)
	}
	_, exists := h.m.ks[ks.Id]
	err := h.db.SaveKeyset(ks)
	h.note("SaveKeyset(%+v)=%s", ks, vbErrStr(err))
	if (err == nil) != !exists {
		h.fail("SaveKeyset/err-iff"+vbHugeTag(err != nil && uint64(ks.InputFeePpk) >= vbHuge, "InputFeePpk"), "err=%v but !old(db.ks)[ks.Id]=%v", err, !exists)
	}
	want := h.m.clone()
	if err == nil {
		want.ks[ks.Id] = ks
	}
	h.finish("SaveKeyset", want, []string{"ks"}, err == nil)
}

func (h *vbH) opUpdateKeysetActive() {
	id := vbPick(h, vbKsQuery)
	active := h.rng.IntN(2) == 0
	row, exists := h.m.ks[id]
	err := h.db.UpdateKeysetActive(id, active)
	h.note("UpdateKeysetActive(%q,%v)=%s", id, active, vbErrStr(err))
	if (err == nil) != exists {
		h.fail("UpdateKeysetActive/err-iff", "err=%v but db.ks[keysetId]=%v", err, exists)
	}
	want := h.m.clone()
	if err == nil && exists {
		row.Active = active
		want.ks[id] = row
	}
	h.finish("UpdateKeysetActive", want, []string{"ks"}, err == nil)
}

// ---- the operation table ------------------------------------------------------------------

type vbOp struct {
	name   string
	weight int
	run    func(h *vbH)
}

func (h *vbH) genBs() []string {
	n := h.rng.IntN(4)
	if n == 0 && h.rng.IntN(2) == 0 {
		return nil
	}
	bs := []string{}
	for i := 0; i < n; i++ {
		bs = append(bs, vbPick(h, vbB_Query))
	}
	return bs
}

var vbOps = []vbOp{
	{"SaveProofs", 10, (*vbH).opSaveProofs},
	{"AddPendingProofs", 8, (*vbH).opAddPendingProofs},
	{"RemovePendingProofs", 5, (*vbH).opRemovePendingProofs},
	{"SaveBlindSignatures", 8, (*vbH).opSaveBlindSignatures},
	{"SaveMintQuote", 5, (*vbH).opSaveMintQuote},
	{"UpdateMintQuoteState", 5, (*vbH).opUpdateMintQuoteState},
	{"SaveMeltQuote", 5, (*vbH).opSaveMeltQuote},
	{"UpdateMeltQuote", 5, (*vbH).opUpdateMeltQuote},
	{"SaveKeyset", 3, (*vbH).opSaveKeyset},
	{"UpdateKeysetActive", 3, (*vbH).opUpdateKeysetActive},
	{"SaveSeed", 2, (*vbH).opSaveSeed},
	{"GetProofsUsed", 2, func(h *vbH) {
		ys := h.genYs()
		h.note("GetProofsUsed(%s)", vbYns(ys))
		h.getterOp("GetProofsUsed", h.chkGetProofsUsed(h.m, ys))
	}},
	{"GetPendingProofs", 2, func(h *vbH) {
		ys := h.genYs()
		h.note("GetPendingProofs(%s)", vbYns(ys))
		h.getterOp("GetPendingProofs", h.chkGetPendingProofs(h.m, ys))
	}},
	{"GetPendingProofsByQuote", 2, func(h *vbH) {
		q := vbPick(h, vbMeltQuery)
		h.note("GetPendingProofsByQuote(%q)", q)
		h.getterOp("GetPendingProofsByQuote", h.chkGetPendingProofsByQuote(h.m, q))
	}},
	{"GetBlindSignatures", 2, func(h *vbH) {
		bs := h.genBs()
		h.note("GetBlindSignatures(%q)", bs)
		h.getterOp("GetBlindSignatures", h.chkGetBlindSignatures(h.m, bs))
	}},
	{"GetBlindSignature", 2, func(h *vbH) {
		b := vbPick(h, vbB_Query)
		h.note("GetBlindSignature(%q)", b)
		h.getterOp("GetBlindSignature", h.chkGetBlindSignature(h.m, b))
	}},
	{"GetMintQuote", 2, func(h *vbH) {
		id := vbPick(h, vbMintQuery)
		h.note("GetMintQuote(%q)", id)
		h.getterOp("GetMintQuote", h.chkGetMintQuote(h.m, id))
	}},
	{"GetMintQuoteByPaymentHash", 2, func(h *vbH) {
		x := vbPick(h, vbMintHashQuery)
		h.note("GetMintQuoteByPaymentHash(%q)", x)
		h.getterOp("GetMintQuoteByPaymentHash", h.chkGetMintQuoteByPaymentHash(h.m, x))
	}},
	{"GetMeltQuote", 2, func(h *vbH) {
		id := vbPick(h, vbMeltQuery)
		h.note("GetMeltQuote(%q)", id)
		h.getterOp("GetMeltQuote", h.chkGetMeltQuote(h.m, id))
	}},
	{"GetMeltQuoteByPaymentRequest", 2, func(h *vbH) {
		x := vbPick(h, vbMeltReqQuery)
		h.note("GetMeltQuoteByPaymentRequest(%q)", x)
		h.getterOp("GetMeltQuoteByPaymentRequest", h.chkGetMeltQuoteByPaymentRequest(h.m, x))
	}},
	{"GetIssuedEcash", 1, func(h *vbH) {
		h.note("GetIssuedEcash()")
		h.getterOp("GetIssuedEcash", h.chkTotal("GetIssuedEcash", h.db.GetIssuedEcash, h.m.issued, h.m.sigPerKeyset()))
	}},
	{"GetRedeemedEcash", 1, func(h *vbH) {
		h.note("GetRedeemedEcash()")
		h.getterOp("GetRedeemedEcash", h.chkTotal("GetRedeemedEcash", h.db.GetRedeemedEcash, h.m.redeemed, h.m.spentPerKeyset()))
	}},
	{"GetSeed", 1, func(h *vbH) {
		h.note("GetSeed()")
		h.getterOp("GetSeed", h.chkGetSeed(h.m))
	}},
	{"GetKeysets", 1, func(h *vbH) {
		h.note("GetKeysets()")
		h.getterOp("GetKeysets", h.chkGetKeysets(h.m))
	}},
}

func TestVerifBoundedDBConf(t *testing.T) {
	vbInitPools()
	seed := uint64(1)
	if s := os.Getenv("VERIF_SEED"); s != "" {
		if v, err := strconv.ParseUint(s, 10, 64); err == nil {
			seed = v
		}
	}
	nseq, nops := 40, 40
	if os.Getenv("VERIF_TIER") == "thorough" {
		nseq, nops = 400, 60
	}
	only := -1
	if s := os.Getenv("VERIF_DBCONF_SEQ"); s != "" {
		if v, err := strconv.Atoi(s); err == nil {
			only = v
		}
	}
	total := 0
	for _, o := range vbOps {
		total += o.weight
	}
	h := &vbH{seed: seed, seen: map[string]bool{}}
	counts := map[string]int{}
	for s := 0; s < nseq; s++ {
		if only >= 0 && s != only {
			continue
		}
		dir := t.TempDir()
		db, err := InitSQLite(dir)
		h.seq, h.step, h.trace, h.diverged = s, 0, nil, false
		if err != nil {
			h.fail("harness/InitSQLite", "InitSQLite(%s): %v", dir, err)
			break
		}
		h.db, h.m = db, vbNewModel()
		h.rng = rand.New(rand.NewPCG(seed, uint64(s)))
		// a fresh store is the empty model
		h.readback(h.m, "InitSQLite", nil, true)
		for i := 1; i <= nops && !h.diverged; i++ {
			h.step = i
			k := h.rng.IntN(total)
			for _, o := range vbOps {
				if k < o.weight {
					h.cases++
					counts[o.name]++
					o.run(h)
					break
				}
				k -= o.weight
			}
		}
		db.Close()
		os.RemoveAll(dir)
	}
	if only < 0 {
		for _, o := range vbOps {
			if counts[o.name] == 0 {
				h.fail("harness/coverage", "method %s was never exercised", o.name)
			}
		}
	}
	var cs []string
	for _, o := range vbOps {
		cs = append(cs, fmt.Sprintf("%s=%d", o.name, counts[o.name]))
	}
	t.Logf("seed=%d sequences=%d ops/sequence=%d checked calls=%d (getter calls incl. read-back: %d; errors accepted as storage faults: %d); per method: %s", seed, nseq, nops, h.cases, h.reads, h.faults, strings.Join(cs, " "))
	// at most 8 failures: witnesses not tagged with a requires-violating switch first
	sort.SliceStable(h.fails, func(a, b int) bool {
		return !strings.Contains(h.fails[a].Witness, "#") && strings.Contains(h.fails[b].Witness, "#")
	})
	kept := h.fails
	if len(kept) > 8 {
		kept = kept[:8]
		for _, f := range h.fails[8:] {
			fmt.Printf("VERIF-BOUNDED-DROPPED %s: %s\n", f.Witness, f.Msg)
		}
	}
	if kept == nil {
		kept = []vbFailure{}
	}
	out, _ := json.Marshal(map[string]any{"cases": h.cases, "failures": kept})
	fmt.Printf("VERIF-BOUNDED %s\n", out)
	if len(h.fails) > 0 {
		var ws []string
		for _, f := range h.fails {
			ws = append(ws, f.Witness)
		}
		t.Fatalf("%d contract clauses violated: %s", len(h.fails), strings.Join(ws, ", "))
	}
}
